"""Reference model for C15 (ParaDiag).  Never imports pySDC.

Everything is dense numpy / exact rational arithmetic:

* closed-form eigen-decomposition of the alpha-circulant time-coupling matrix E_alpha
      E_alpha = J F^* diag(d) F J^{-1},  J = diag(alpha^{-j/L}),  F = unitary DFT,
      d_l = -alpha^{1/L} exp(-2 pi i l / L)           (evaluated with mpmath, 40 digits)
* collocation matrix Q by exact (Fraction) integration of the Lagrange basis through given nodes
* finite-difference operators of the heat / advection problems used as test beds (2nd order centred)
* dense collocation solve, dense sequential collocation time stepping
* dense all-at-once matrix C, ParaDiag preconditioner P_alpha and the norms used for the error bounds
"""

import math
from fractions import Fraction

import mpmath
import numpy as np

EPS = float(np.finfo(float).eps)


# ---------------------------------------------------------------------------------------------------
# alpha-circulant algebra
# ---------------------------------------------------------------------------------------------------
def E_alpha(L, alpha):
    """-1 on the first sub-diagonal, -alpha in the top right corner (for L == 1 the single entry is -alpha)."""
    E = np.zeros((L, L))
    for j in range(L - 1):
        E[j + 1, j] = -1.0
    E[0, L - 1] = -float(alpha)
    return E


def gamma(L, alpha):
    """weights gamma_j = alpha^{-j/L}, j = 0..L-1 (40-digit evaluation, rounded once)."""
    with mpmath.workdps(40):
        a = mpmath.mpf(alpha)
        return np.array([float(a ** (-mpmath.mpf(j) / L)) for j in range(L)])


def factors(L, alpha):
    """eigenvalues d_l of J^{-1} E_alpha J (a circulant with first column (0, -alpha^{1/L}, 0, ...))."""
    out = []
    with mpmath.workdps(40):
        r = mpmath.mpf(alpha) ** (mpmath.mpf(1) / L)
        for l in range(L):
            z = -r * mpmath.expjpi(-mpmath.mpf(2 * l) / L)
            out.append(complex(float(z.real), float(z.imag)))
    return np.array(out, dtype=complex)


def G_matrix(d, M):
    """G = I + d * H with H = ones in the last column (RADAU-RIGHT: end value = last node)."""
    G = np.eye(M, dtype=complex)
    G[:, -1] += d
    return G


def G_inv_closed(d, M):
    """Sherman-Morrison: (I + d 1 e_M^T)^{-1} = I - d/(1+d) 1 e_M^T.  Caller guarantees 1 + d != 0."""
    Gi = np.eye(M, dtype=complex)
    Gi[:, -1] -= d / (1.0 + d)
    return Gi


def G_relcond(d):
    """relative error amplification of forming 1/(1+d) from a d that carries absolute error eps*(1+|d|)."""
    return (1.0 + abs(d)) / abs(1.0 + d)


# ---------------------------------------------------------------------------------------------------
# collocation
# ---------------------------------------------------------------------------------------------------
def _poly_mul(p, q):
    r = [Fraction(0)] * (len(p) + len(q) - 1)
    for i, a in enumerate(p):
        for j, b in enumerate(q):
            r[i + j] += a * b
    return r


def lagrange_Q(nodes):
    """Q[m, j] = int_0^{tau_m} l_j(s) ds, exact for the given float nodes (unit interval), rounded once."""
    tau = [Fraction(float(x)) for x in nodes]
    M = len(tau)
    Q = np.zeros((M, M))
    for j in range(M):
        p = [Fraction(1)]
        den = Fraction(1)
        for k in range(M):
            if k != j:
                p = _poly_mul(p, [-tau[k], Fraction(1)])
                den *= tau[j] - tau[k]
        prim = [Fraction(0)] + [c / (i + 1) for i, c in enumerate(p)]
        for m in range(M):
            s = Fraction(0)
            for c in reversed(prim):
                s = s * tau[m] + c
            Q[m, j] = float(s / den)
    return Q


# ---------------------------------------------------------------------------------------------------
# spatial operators of the test-bed problems (independent of pySDC's problem_helper)
# ---------------------------------------------------------------------------------------------------
def heat_matrix(n, nu, bc='periodic'):
    """nu * second difference, 2nd order centred, on [0,1]: periodic (dx = 1/n) or homogeneous Dirichlet (dx = 1/(n+1))."""
    dx = 1.0 / n if bc == 'periodic' else 1.0 / (n + 1)
    A = np.zeros((n, n))
    for i in range(n):
        A[i, i] += -2.0
        for k in (i - 1, i + 1):
            if bc == 'periodic':
                A[i, k % n] += 1.0
            elif 0 <= k < n:
                A[i, k] += 1.0
    return A * (nu / dx**2)


def advection_matrix(n, c):
    """-c * first difference, 2nd order centred, periodic on [0,1] (dx = 1/n)."""
    dx = 1.0 / n
    A = np.zeros((n, n))
    for i in range(n):
        A[i, (i + 1) % n] += 1.0
        A[i, (i - 1) % n] -= 1.0
    return A * (-c / (2.0 * dx))


def grid(n, bc='periodic'):
    if bc == 'periodic':
        return np.arange(n) / n
    return (np.arange(n) + 1.0) / (n + 1)


def heat_forcing(n, nu, freq, bc='periodic'):
    """forcing of heatNd_forced in 1D: sin(pi k x) (nu pi^2 k^2 cos t - sin t)."""
    x = grid(n, bc)
    s = np.sin(np.pi * freq * x)

    def g(t):
        return s * (nu * np.pi**2 * freq**2 * math.cos(t) - math.sin(t))

    return g


# ---------------------------------------------------------------------------------------------------
# dense collocation problems
# ---------------------------------------------------------------------------------------------------
def node_lhs(Q, G, dt, A):
    """G (x) I - dt Q (x) A  (node index slow, space index fast)."""
    N = A.shape[0]
    return np.kron(G, np.eye(N)) - dt * np.kron(Q, A)


def colloc_step(Q, nodes, dt, A, u0, t0=0.0, forcing=None):
    """solve (I - dt Q (x) A) u = 1 (x) u0 + dt (Q (x) I) g ; returns (M, N) node values."""
    M = Q.shape[0]
    N = A.shape[0]
    rhs = np.kron(np.ones(M), np.asarray(u0, dtype=complex))
    if forcing is not None:
        g = np.concatenate([forcing(t0 + dt * nodes[m]) for m in range(M)]).astype(complex)
        rhs = rhs + dt * (np.kron(Q, np.eye(N)) @ g)
    lhs = node_lhs(Q, np.eye(M), dt, A)
    return np.linalg.solve(lhs, rhs).reshape(M, N)


def sequential(Q, nodes, dt, A, u0, t0, nsteps, forcing=None):
    """plain collocation time stepping; the end value of a step is the last node (RADAU-RIGHT). Returns list of end values."""
    out = []
    u = np.asarray(u0, dtype=complex)
    t = t0
    for _ in range(nsteps):
        u = colloc_step(Q, nodes, dt, A, u, t, forcing)[-1]
        t = t + dt
        out.append(u.copy())
    return out


def all_at_once(Q, dt, A, L, alpha, A_prec=None):
    """dense all-at-once matrix C (operator A, alpha = 0 coupling) and ParaDiag preconditioner P_alpha (operator A_prec,
    default A; for IMEX splittings the local solves only see the implicit part), ordering (step, node, space)."""
    M = Q.shape[0]
    N = A.shape[0]
    H = np.zeros((M, M))
    H[:, -1] = 1.0
    HN = np.kron(H, np.eye(N))
    C = np.kron(np.eye(L), node_lhs(Q, np.eye(M), dt, A)) + np.kron(E_alpha(L, 0.0), HN)
    P = np.kron(np.eye(L), node_lhs(Q, np.eye(M), dt, A if A_prec is None else A_prec)) + np.kron(E_alpha(L, alpha), HN)
    return C, P


def block_rhs(Q, nodes, dt, N, L, u0, t0, forcing=None):
    """right-hand side b of the all-at-once system C u = b for one block starting at (t0, u0)."""
    M = Q.shape[0]
    b = np.zeros(L * M * N, dtype=complex)
    b[: M * N] = np.kron(np.ones(M), np.asarray(u0, dtype=complex))
    if forcing is not None:
        QN = np.kron(Q, np.eye(N))
        for j in range(L):
            g = np.concatenate([forcing(t0 + j * dt + dt * nodes[m]) for m in range(M)]).astype(complex)
            b[j * M * N : (j + 1) * M * N] += dt * (QN @ g)
    return b


def norm_inf(X):
    return float(np.abs(X).sum(axis=1).max())


def run_bound_constants(Q, dt, A, L, alpha, A_prec=None):
    """constants of the error bound for a converged ParaDiag block.

    If the all-at-once residual of iterate k is r (max norm <= restol) the error of that iterate is C^{-1} r and the error
    of the next iterate (the one the controller returns, it performs one more update after measuring r) is
    (C^{-1} - P^{-1}) r.  K = max of both inf-norms covers either; K_ic = ||C^{-1} (e_0 (x) 1 (x) I)||_inf is the
    amplification of an error in the block's initial value.  rho = spectral radius of the iteration matrix I - P^{-1} C.
    """
    M = Q.shape[0]
    N = A.shape[0]
    C, P = all_at_once(Q, dt, A, L, alpha, A_prec)
    Ci = np.linalg.inv(C)
    out = {'K_C': norm_inf(Ci), 'condC': float(np.linalg.cond(C, np.inf))}
    try:
        Pi = np.linalg.inv(P)
        T = np.eye(C.shape[0]) - Pi @ C
        out['K_next'] = norm_inf(Ci - Pi)
        out['rho'] = float(np.abs(np.linalg.eigvals(T)).max())
        out['condP'] = float(np.linalg.cond(P, np.inf))
    except np.linalg.LinAlgError:
        out['K_next'] = float('inf')
        out['rho'] = float('inf')
        out['condP'] = float('inf')
    ic = np.zeros((L * M * N, N))
    for m in range(M):
        ic[m * N : (m + 1) * N, :] = np.eye(N)
    out['K_ic'] = norm_inf(Ci @ ic)
    return out


def sweeper_scale(Q, Ginv, dt, A):
    """error scale of 'G^{-1} S (I - w_m dt A)^{-1} S^{-1}' evaluated in floating point (the algorithm the sweeper is
    documented to use), from the oracle's own eigen-decomposition of Q G^{-1}: ||G^-1|| cond(S) max_m ||D_m^-1|| cond(D_m)."""
    B = Q @ Ginv
    w, S = np.linalg.eig(B)
    condS = float(np.linalg.cond(S))
    N = A.shape[0]
    worst = 0.0
    for wm in w:
        D = np.eye(N) - wm * dt * A
        sv = np.linalg.svd(D, compute_uv=False)
        worst = max(worst, (1.0 / sv[-1]) * (sv[0] / sv[-1]))
    return float(np.linalg.norm(Ginv, 2)) * condS * worst, condS
