"""Dense reference models for SDC / Runge-Kutta sweeps (properties C02, C04).

Nothing in here imports pySDC and nothing calls the sweeper code.  Inputs are plain numpy data:
  * node positions (floats, as reported by the collocation / tableau object - the property says the iteration is built
    from "its" quadrature matrix, the oracle rebuilds Q from these nodes by exact polynomial integration in mpmath),
  * preconditioner coefficients straight from qmat's generators (qmat is third-party, not code under test),
  * dense operator matrices A_s and forcing vectors g_s(t_m) that the harness extracted from the *problem* object.

Every model returns the predicted value together with a `scale` (magnitude of the terms that were summed, pushed
through |LHS^-1|), from which the property module forms the tolerance  c * eps * scale.
"""

import functools
import math

import mpmath as mp
import numpy as np

EPS = float(np.finfo(float).eps)


# ======================================================================================================================
# quadrature matrices from float nodes (exact polynomial integration, mpmath)
# ======================================================================================================================
def _poly_mul_linear(c, r):
    """(sum c_i x^i) * (x - r), ascending coefficients."""
    out = [mp.mpf(0)] * (len(c) + 1)
    for i, ci in enumerate(c):
        out[i + 1] += ci
        out[i] -= r * ci
    return out


def _poly_eval(c, x):
    s = mp.mpf(0)
    for ci in reversed(c):
        s = s * x + ci
    return s


@functools.lru_cache(maxsize=4096)
def _lagrange_Q_mp(nodes_t, tleft, tright, dps):
    with mp.workdps(dps):
        x = [mp.mpf(v) for v in nodes_t]
        M = len(x)
        a, b = mp.mpf(tleft), mp.mpf(tright)
        Q = [[None] * M for _ in range(M)]
        w = [None] * M
        for j in range(M):
            c = [mp.mpf(1)]
            den = mp.mpf(1)
            for i in range(M):
                if i != j:
                    c = _poly_mul_linear(c, x[i])
                    den *= x[j] - x[i]
            anti = [mp.mpf(0)] + [ci / (i + 1) / den for i, ci in enumerate(c)]
            Pa = _poly_eval(anti, a)
            for m in range(M):
                Q[m][j] = _poly_eval(anti, x[m]) - Pa
            w[j] = _poly_eval(anti, b) - Pa
        return Q, w


def lagrange_Q(nodes, tleft=0.0, tright=1.0, dps=40):
    """Q[m, j] = int_tleft^{nodes[m]} l_j,   w[j] = int_tleft^tright l_j   (float arrays, correctly rounded)."""
    Q, w = _lagrange_Q_mp(tuple(float(v) for v in nodes), float(tleft), float(tright), dps)
    return np.array([[float(v) for v in row] for row in Q]), np.array([float(v) for v in w])


def lagrange_Q_mp(nodes, tleft=0.0, tright=1.0, dps=40):
    return _lagrange_Q_mp(tuple(float(v) for v in nodes), float(tleft), float(tright), dps)


def q_compare_scale(nodes):
    """Scale for comparing a float Q computed by other means with ours: sum_j |l_j| integrated ~ Lebesgue-type bound.
    We use  max_m sum_j |Q[m, j]|  times a node-perturbation factor  M / min node gap  (an O(eps) node perturbation
    moves Q by that much)."""
    nodes = np.asarray(nodes, dtype=float)
    Q, w = lagrange_Q(nodes)
    M = len(nodes)
    gap = 1.0 if M < 2 else float(np.min(np.diff(np.sort(nodes))))
    return float(max(np.max(np.sum(np.abs(Q), axis=1)), np.sum(np.abs(w)))) * (1.0 + M / max(gap, 1e-3))


def pad(QD, col0=None):
    """zero-pad MxM coefficients into the (M+1)x(M+1) pySDC layout (first row/column belong to u0)."""
    QD = np.asarray(QD)
    M = QD.shape[0]
    out = np.zeros((M + 1, M + 1), dtype=QD.dtype)
    out[1:, 1:] = QD
    if col0 is not None:
        out[1:, 0] = col0
    return out


# ======================================================================================================================
# preconditioner coefficients from qmat
# ======================================================================================================================
@functools.lru_cache(maxsize=None)
def _qmat_coll(node_type, quad_type, M):
    from qmat.qcoeff.collocation import Collocation

    return Collocation(nNodes=M, nodeType=node_type, quadType=quad_type, tLeft=0.0, tRight=1.0)


def qd_names():
    from qmat.qdelta import QDELTA_GENERATORS

    return sorted(QDELTA_GENERATORS.keys())


def qd_class_of(name):
    from qmat.qdelta import QDELTA_GENERATORS

    return QDELTA_GENERATORS[name].__name__


def qd_is_kdep(name):
    from qmat.qdelta import QDELTA_GENERATORS

    return bool(QDELTA_GENERATORS[name]._K_DEPENDENT)


@functools.lru_cache(maxsize=None)
def _qd_coeffs_cached(cls_name, node_type, quad_type, M, k):
    from qmat.qdelta import QDELTA_GENERATORS

    try:
        coll = _qmat_coll(node_type, quad_type, M)
        gen = QDELTA_GENERATORS[cls_name](qGen=coll, tLeft=0.0)
        QD, dtau = gen.genCoeffs(k=k, dTau=True)
        QD = np.array(QD, dtype=float)
        dtau = np.array(dtau, dtype=float) * np.ones(M)
    except Exception as e:  # generator not available for this node set
        return {'status': 'unavailable', 'error': f'{type(e).__name__}: {str(e)[:120]}'}
    if not (np.all(np.isfinite(QD)) and np.all(np.isfinite(dtau))):
        return {'status': 'nonfinite', 'QD': QD, 'dtau': dtau}
    return {'status': 'ok', 'QD': QD, 'dtau': dtau}


def qd_coeffs(name, node_type, quad_type, M, k=None):
    """Coefficients of preconditioner `name` on that node set at sweep index k (None = as at construction).
    Returns dict(status in {'ok','unavailable','nonfinite'}, QD (MxM), dtau (M))."""
    return _qd_coeffs_cached(qd_class_of(name), node_type, quad_type, int(M), k)


def predicted_rejection(QD, explicit):
    """The sweeper contract: implicit slot needs lower triangular, explicit slot strictly lower triangular coefficients."""
    QD = np.asarray(QD)
    return bool(np.any(np.triu(QD, 0 if explicit else 1) != 0))


def collocation_nodes(node_type, quad_type, M):
    """nodes/order as qmat reports them (used by C04 where no sweeper object exists before the run)."""
    coll = _qmat_coll(node_type, quad_type, M)
    return np.array(coll.nodes, dtype=float), int(coll.order)


# ======================================================================================================================
# generic helpers
# ======================================================================================================================
def _solve_with_scale(LHS, rhs, absrhs, nb=None, perm=None, normwise=False):
    """x = LHS^-1 rhs and a forward-error scale for the *sequential* (node by node) solution process.

    Without block information: max |LHS^-1| (absrhs + |LHS||x|).  With block size nb (after the optional permutation
    perm that puts the unknowns into the order in which a sweep computes them) LHS must be block lower triangular;
    then the scale is that of block forward substitution,  W (absrhs + |D||x|)  with
    W = (I - |D^-1||L|)^-1 |D^-1|  (D block diagonal, L strictly lower block part): unlike |LHS^-1| this does not
    benefit from cancellation between the paths of the recursion, exactly like the computation itself."""
    LHS = np.asarray(LHS)
    inv = np.linalg.inv(LHS)
    x = inv @ rhs
    # iterative refinement with the residual in extended precision: the reference must be more accurate than the
    # tolerance it is compared under, also for strongly non-normal (high-stage explicit) systems
    ext = np.clongdouble if (np.iscomplexobj(LHS) or np.iscomplexobj(rhs)) else np.longdouble
    Le, re_ = LHS.astype(ext), np.asarray(rhs).astype(ext)
    for _ in range(3):
        r = re_ - Le @ x.astype(ext)
        x = (x.astype(ext) + (inv @ r.astype(x.dtype)).astype(ext)).astype(x.dtype)
    s = np.abs(inv) @ (absrhs + np.abs(LHS) @ np.abs(x))
    scale = float(np.max(s)) if s.size else 0.0
    if normwise and s.size:
        # node systems with badly scaled unknowns (DAE: derivatives of algebraic variables ~ 1/dt) solved by a normwise
        # backward stable dense solver: error ~ ||LHS^-1|| (||rhs|| + ||LHS|| ||x||)
        ninv = float(np.max(np.sum(np.abs(inv), axis=1)))
        nl = float(np.max(np.sum(np.abs(LHS), axis=1)))
        scale = max(scale, ninv * (float(np.max(absrhs)) + nl * float(np.max(np.abs(x)))))
    if nb:
        N = LHS.shape[0]
        P = np.arange(N) if perm is None else np.asarray(perm)
        Lp = LHS[np.ix_(P, P)]
        nblk = N // nb
        D = np.zeros_like(Lp)
        for b in range(nblk):
            sl = slice(b * nb, (b + 1) * nb)
            D[sl, sl] = Lp[sl, sl]
        Ls = Lp - D
        mask = np.kron(np.triu(np.ones((nblk, nblk)), 1), np.ones((nb, nb))).astype(bool)
        if not np.any(Ls[mask] != 0):
            Dinv = np.zeros_like(Lp)
            for b in range(nblk):
                sl = slice(b * nb, (b + 1) * nb)
                Dinv[sl, sl] = np.linalg.inv(D[sl, sl])
            T = np.abs(Dinv) @ np.abs(Ls)
            W = np.linalg.inv(np.eye(N) - T) @ np.abs(Dinv)
            s2 = W @ (absrhs[P] + np.abs(D) @ np.abs(x[P]))
            if np.all(np.isfinite(s2)) and np.all(s2 >= 0):
                scale = max(scale, float(np.max(s2)))
    return x, scale


def _c(*arrs):
    dt = np.result_type(*[np.asarray(a).dtype for a in arrs], np.float64)
    return dt


class Split:
    """One additive part of a linear right-hand side: F_s(u, t) = A u + g(t)."""

    def __init__(self, A, g=None):
        self.A = np.asarray(A)
        self.n = self.A.shape[0]
        self.g = g if g is not None else (lambda t: np.zeros(self.n))
        self._gc = {}

    def g1(self, t):
        t = float(t)
        v = self._gc.get(t)
        if v is None:
            v = np.array(np.asarray(self.g(t)).reshape(self.n), copy=True)
            self._gc[t] = v
        return v

    def G(self, times):
        return np.array([self.g1(t) for t in times])

    def F(self, U, times):
        U = np.asarray(U)
        return U @ self.A.T + self.G(times)


# ======================================================================================================================
# first-order sweeps: generic_implicit, explicit, imex_1st_order(_mass)
# ======================================================================================================================
def sweep_first_order(nodes, Q, QDs_full, splits, dt, t0, Ufull_old, tau=None, mass=None, mass_u0=True):
    """(Mass (x) I - dt sum_s QD_s (x) A_s) U+ = 1 (x) Mass u0 + dt sum_s (Q - QD_s) (x) F_s(U) + tau    in the (M+1) layout.

    nodes: M floats in [0,1];  Q: MxM;  QDs_full: list of (M+1)x(M+1) padded preconditioners, one per split;
    Ufull_old: (M+1, n) with row 0 = u0;  tau: (M, n) or None.  Returns dict(U (M+1,n), F list per split (M+1,n), scale).
    """
    M = len(nodes)
    n = splits[0].n
    Qf = pad(Q)
    times = [t0] + [t0 + dt * c for c in nodes]
    dtype = _c(Ufull_old, *[s.A for s in splits], *( [tau] if tau is not None else []), *( [mass] if mass is not None else []))
    Mass = np.eye(n) if mass is None else np.asarray(mass)
    Uold = np.asarray(Ufull_old, dtype=dtype)
    u0 = Uold[0]
    N = (M + 1) * n
    LHS = np.kron(np.eye(M + 1), Mass).astype(dtype)
    rhs = np.zeros((M + 1, n), dtype=dtype)
    absr = np.zeros((M + 1, n))
    Mu0 = Mass @ u0 if mass_u0 else u0
    aMu0 = np.abs(Mass) @ np.abs(u0) if mass_u0 else np.abs(u0)
    for s, QD in zip(splits, QDs_full):
        LHS = LHS - dt * np.kron(QD, s.A)
        Fold = s.F(Uold, times)
        G = s.G(times)
        rhs += dt * (Qf - QD) @ Fold + dt * QD @ G
        absr += abs(dt) * (np.abs(Qf) + np.abs(QD)) @ (np.abs(Uold) @ np.abs(s.A).T + np.abs(G)) + abs(dt) * np.abs(QD) @ np.abs(G)
    rhs[1:] += Mu0
    absr[1:] += aMu0
    if tau is not None:
        rhs[1:] += tau
        absr[1:] += np.abs(tau)
    # row 0: U+_0 = u0
    LHS[:n, :] = 0
    LHS[:n, :n] = np.eye(n)
    rhs[0] = u0
    absr[0] = np.abs(u0)
    x, scale = _solve_with_scale(LHS, rhs.reshape(N), absr.reshape(N), nb=n)
    U = x.reshape(M + 1, n)
    F = [s.F(U, times) for s in splits]
    fscale = max(float(np.max(np.abs(U) @ np.abs(s.A).T + np.abs(s.G(times)))) + scale * float(np.max(np.sum(np.abs(s.A), axis=1), initial=0.0)) for s in splits)
    return {'U': U, 'F': F, 'scale': max(scale, 1e-300), 'fscale': max(fscale, scale)}


def integrate_first_order(Q, Fsum_nodes, dt):
    """dt * Q (x) I applied to the summed right-hand side at the M nodes. Fsum_nodes: (M, n)."""
    Q = np.asarray(Q)
    val = dt * Q @ Fsum_nodes
    scale = float(np.max(abs(dt) * np.abs(Q) @ np.abs(Fsum_nodes), initial=0.0))
    return val, max(scale, 1e-300)


def end_point_quadrature(w, u0, Fsum_nodes, dt, tau_last=None):
    """u0 + dt sum_m w_m f_m (+ tau_M)."""
    val = u0 + dt * np.asarray(w) @ Fsum_nodes
    scale = np.abs(u0) + abs(dt) * np.abs(w) @ np.abs(Fsum_nodes)
    if tau_last is not None:
        val = val + tau_last
        scale = scale + np.abs(tau_last)
    return val, max(float(np.max(scale, initial=0.0)), 1e-300)


# ======================================================================================================================
# multi-implicit: two successive node solves with Q1/A1 and Q2/A2
# ======================================================================================================================
def sweep_multi_implicit(nodes, Q, Q1f, Q2f, s1, s2, dt, t0, Ufull_old, tau=None):
    """Unknowns (U*, U+) at the M nodes:
         (I - dt D1 (x) A1) U*  - dt L1 (x) A1 U+                 = 1 (x) u0 + dt Q (x) (F1+F2)(U) - dt Q1 (x) F1(U) + tau + dt (L1+D1) g1
         -U* + (I - dt (D2 + L2) (x) A2) U+                       = -dt Q2 (x) F2(U) + dt (L2 + D2) g2
    with D = diagonal and L = strictly lower part of the MxM blocks."""
    M = len(nodes)
    n = s1.n
    times = [t0 + dt * c for c in nodes]
    dtype = _c(Ufull_old, s1.A, s2.A, *( [tau] if tau is not None else []))
    Uold = np.asarray(Ufull_old, dtype=dtype)
    u0 = Uold[0]
    Un = Uold[1:]
    Q1 = np.asarray(Q1f)[1:, 1:]
    Q2 = np.asarray(Q2f)[1:, 1:]
    D1, L1 = np.diag(np.diag(Q1)), np.tril(Q1, -1)
    D2, L2 = np.diag(np.diag(Q2)), np.tril(Q2, -1)
    F1, F2 = s1.F(Un, times), s2.F(Un, times)
    G1, G2 = s1.G(times), s2.G(times)
    I = np.eye(M * n)
    LHS = np.block(
        [
            [I - dt * np.kron(D1, s1.A), -dt * np.kron(L1, s1.A)],
            [-I, I - dt * np.kron(D2 + L2, s2.A)],
        ]
    ).astype(dtype)
    r1 = u0[None, :] + dt * Q @ (F1 + F2) - dt * Q1 @ F1 + dt * (L1 + D1) @ G1
    a1 = np.abs(u0)[None, :] + abs(dt) * np.abs(Q) @ (np.abs(F1) + np.abs(F2)) + abs(dt) * np.abs(Q1) @ (np.abs(F1) + np.abs(G1))
    if tau is not None:
        r1 = r1 + tau
        a1 = a1 + np.abs(tau)
    r2 = -dt * Q2 @ F2 + dt * (L2 + D2) @ G2
    a2 = abs(dt) * np.abs(Q2) @ (np.abs(F2) + np.abs(G2))
    rhs = np.concatenate([r1.reshape(-1), r2.reshape(-1)])
    absr = np.concatenate([a1.reshape(-1), a2.reshape(-1)])
    perm = np.concatenate([np.concatenate([np.arange(m * n, (m + 1) * n), M * n + np.arange(m * n, (m + 1) * n)]) for m in range(M)])
    x, scale = _solve_with_scale(LHS, rhs, absr, nb=n, perm=perm)
    Unew = x[M * n :].reshape(M, n)
    U = np.vstack([u0[None, :], Unew])
    tfull = [t0] + times
    F = [s1.F(U, tfull), s2.F(U, tfull)]
    amax = max(float(np.max(np.sum(np.abs(s.A), axis=1), initial=0.0)) for s in (s1, s2))
    fscale = max(float(np.max(np.abs(f))) for f in F) + scale * amax
    return {'U': U, 'F': F, 'scale': max(scale, 1e-300), 'fscale': max(fscale, scale)}


# ======================================================================================================================
# second order (position / velocity): verlet
# ======================================================================================================================
def verlet_matrices(Q, QIf, QEf, symplectic_lobatto=False, w=None):
    """QT = (QI + QE)/2,  Qx = QE QT + (QE o QE)/2,  QQ = Q Q  (Legendre-Lobatto: Q_IIIA Q_IIIB, the conjugate pair)."""
    Qf = pad(Q)
    QT = 0.5 * (QIf + QEf)
    Qx = QEf @ QT + 0.5 * QEf * QEf
    if symplectic_lobatto:
        M = Q.shape[0]
        B = np.zeros_like(Qf)
        with np.errstate(divide='ignore', invalid='ignore'):
            for m in range(M):
                for nn in range(M):
                    B[m + 1, nn + 1] = w[nn] * (1.0 - Q[nn, m] / w[m])
        QQ = Qf @ B
    else:
        QQ = Qf @ Qf
    return QT, Qx, QQ


def sweep_verlet(nodes, Q, QT, Qx, QQ, K, g, dt, t0, X_old, V_old, tau_x=None, tau_v=None):
    """x'' = F(x, t) = K x + g(t)  (force independent of the velocity).
         X+ = 1 x0 + dt c v0 + dt^2 (QQ - Qx) F(X) + dt^2 Qx F(X+) + tau_x ,   c = Q 1
         V+ = 1 v0 + dt (Q - QT) F(X) + dt QT F(X+) + tau_v
    all matrices in the (M+1) layout, column 0 of Qx/QT does not enter (F_0 is the same before and after)."""
    M = len(nodes)
    K = np.asarray(K)
    n = K.shape[0]
    times = [t0] + [t0 + dt * c for c in nodes]
    sp = Split(K, g)
    X_old = np.asarray(X_old, dtype=float)
    V_old = np.asarray(V_old, dtype=float)
    x0, v0 = X_old[0], V_old[0]
    Fold = sp.F(X_old, times)
    G = sp.G(times)
    Qf = pad(Q)
    c = np.sum(Qf, axis=1)

    def nz(Mx):  # drop column 0
        Mx = np.array(Mx, dtype=float)
        Mx[:, 0] = 0.0
        return Mx

    Qx_, QT_, QQ_, Q_ = nz(Qx), nz(QT), nz(QQ), nz(Qf)
    LHS = np.eye((M + 1) * n) - dt * dt * np.kron(Qx_, K)
    rhs = x0[None, :] + dt * c[:, None] * v0[None, :] + dt * dt * (QQ_ - Qx_) @ Fold + dt * dt * Qx_ @ G
    absr = np.abs(x0)[None, :] + abs(dt) * np.abs(c)[:, None] * np.abs(v0)[None, :] + dt * dt * (np.abs(QQ_) + np.abs(Qx_)) @ (np.abs(Fold) + np.abs(G))
    if tau_x is not None:
        rhs[1:] += tau_x
        absr[1:] += np.abs(tau_x)
    LHS[:n, :] = 0
    LHS[:n, :n] = np.eye(n)
    rhs[0] = x0
    absr[0] = np.abs(x0)
    x, sx = _solve_with_scale(LHS, rhs.reshape(-1), absr.reshape(-1), nb=n)
    X = x.reshape(M + 1, n)
    Fnew = sp.F(X, times)
    V = v0[None, :] + dt * (Q_ - QT_) @ Fold + dt * QT_ @ Fnew
    sv = np.abs(v0)[None, :] + abs(dt) * (np.abs(Q_) + np.abs(QT_)) @ np.abs(Fold) + abs(dt) * np.abs(QT_) @ np.abs(Fnew)
    if tau_v is not None:
        V[1:] += tau_v
        sv[1:] += np.abs(tau_v)
    V[0] = v0
    kmax = float(np.max(np.sum(np.abs(K), axis=1), initial=0.0))
    fs = float(np.max(np.abs(Fnew), initial=0.0)) + sx * kmax
    svm = float(np.max(sv)) + abs(dt) * float(np.max(np.sum(np.abs(QT_), axis=1))) * fs
    return {'X': X, 'V': V, 'F': Fnew, 'scale_x': max(sx, 1e-300), 'scale_v': max(svm, sx), 'fscale': max(fs, sx)}


def integrate_verlet(Q, QQ, F_nodes, v0, dt):
    """pos: dt^2 QQ F + dt c v0 ; vel: dt Q F  (node rows 1..M of the (M+1) layout, columns 1..M)."""
    Q = np.asarray(Q)
    QQn = np.asarray(QQ)[1:, 1:]
    c = np.sum(Q, axis=1)
    pos = dt * dt * QQn @ F_nodes + dt * c[:, None] * v0[None, :]
    vel = dt * Q @ F_nodes
    sp_ = dt * dt * np.abs(QQn) @ np.abs(F_nodes) + abs(dt) * np.sum(np.abs(Q), axis=1)[:, None] * np.abs(v0)[None, :]
    sv_ = abs(dt) * np.abs(Q) @ np.abs(F_nodes)
    return pos, vel, max(float(np.max(sp_, initial=0.0)), 1e-300), max(float(np.max(sv_, initial=0.0)), 1e-300)


def end_point_verlet(Q, w, x0, v0, F_nodes, dt, tau_x_last=None, tau_v_last=None):
    """x0 + dt sum_m w_m v0 + dt^2 (w^T Q) F ;  v0 + dt w^T F  (+ tau_M)."""
    w = np.asarray(w)
    qQ = w @ np.asarray(Q)
    xe = x0 + dt * np.sum(w) * v0 + dt * dt * qQ @ F_nodes
    ve = v0 + dt * w @ F_nodes
    sx = np.abs(x0) + abs(dt) * np.sum(np.abs(w)) * np.abs(v0) + dt * dt * np.abs(qQ) @ np.abs(F_nodes)
    sv = np.abs(v0) + abs(dt) * np.abs(w) @ np.abs(F_nodes)
    if tau_x_last is not None:
        xe = xe + tau_x_last
        ve = ve + tau_v_last
        sx = sx + np.abs(tau_x_last)
        sv = sv + np.abs(tau_v_last)
    return xe, ve, max(float(np.max(sx)), 1e-300), max(float(np.max(sv)), 1e-300)


# ======================================================================================================================
# Boris-SDC (single charged particle: linear in (x, v)):  f(x, v) = alpha (E x + v x B)
# ======================================================================================================================
def cross_matrix(B):
    """matrix C with C v = v x B."""
    bx, by, bz = [float(b) for b in B]
    return np.array([[0.0, bz, -by], [-bz, 0.0, bx], [by, -bx, 0.0]])


def boris_matrices(Q, QIf, QEf):
    Qf = pad(Q)
    QT = 0.5 * (QIf + QEf)
    Qx = QEf @ QT + 0.5 * QEf * QEf
    M = Q.shape[0]
    S, ST, Sx = np.zeros_like(Qf), np.zeros_like(Qf), np.zeros_like(Qf)
    for m in range(M):
        S[m + 1] = Qf[m + 1] - Qf[m]
        ST[m + 1] = QT[m + 1] - QT[m]
        Sx[m + 1] = Qx[m + 1] - Qx[m]
    SQ = S @ Qf
    return {'S': S, 'ST': ST, 'Sx': Sx, 'SQ': SQ, 'QT': QT, 'Qx': Qx, 'QQ': Qf @ Qf, 'QI': QIf}


def sweep_boris(nodes, mats, Emat, Bvec, alpha, dt, X_old, V_old, tau_x=None, tau_v=None):
    """Node-to-node Boris-SDC sweep for f = alpha (Emat x + v x B), all (M+1) rows, unknown rows 1..M of (X+, V+):
         X+_{m+1} = X+_m + dt delta_m v0 + dt^2 sum_j (SQ - Sx)[m+1, j] f_j  + dt^2 sum_{j<=m} Sx[m+1, j] f+_j  (+ tau_x increments)
         V+_{m+1} = V+_m + dt sum_j (S - ST)[m+1, j] f_j + (dt QI[m+1,m+1] / 2) (f+_m + f+_{m+1})           (+ tau_v increments)
       the velocity line is the trapezoidal Boris solve; for the default IE/EE pair  QI[m+1,m+1]/2 = ST[m+1,m] = ST[m+1,m+1]."""
    M = len(nodes)
    E = alpha * np.asarray(Emat, dtype=float)
    C = alpha * cross_matrix(Bvec)
    n = 3
    X_old = np.asarray(X_old, dtype=float)
    V_old = np.asarray(V_old, dtype=float)
    f_old = X_old @ E.T + V_old @ C.T
    delta = np.diff(np.concatenate([[0.0], np.asarray(nodes, dtype=float)]))
    S, ST, Sx, SQ, QI = mats['S'], mats['ST'], mats['Sx'], mats['SQ'], mats['QI']
    # unknown vector z = (X_1..X_M, V_1..V_M)
    nz = 2 * M * n
    LHS = np.zeros((nz, nz))
    rhs = np.zeros(nz)
    absr = np.zeros(nz)

    def ix(m):  # m in 1..M
        return slice((m - 1) * n, m * n)

    def iv(m):
        return slice(M * n + (m - 1) * n, M * n + m * n)

    x0, v0 = X_old[0], V_old[0]
    f0 = f_old[0]
    for m in range(M):  # computes node m+1
        rx, rv = ix(m + 1), iv(m + 1)
        # ---- position
        LHS[rx, rx] += np.eye(n)
        cx = dt * delta[m] * v0 + dt * dt * (SQ[m + 1] - Sx[m + 1]) @ f_old
        ax = abs(dt * delta[m]) * np.abs(v0) + dt * dt * (np.abs(SQ[m + 1]) + np.abs(Sx[m + 1])) @ np.abs(f_old)
        if m == 0:
            cx = cx + x0
            ax = ax + np.abs(x0)
        else:
            LHS[rx, ix(m)] -= np.eye(n)
        for j in range(m + 1):
            co = dt * dt * Sx[m + 1, j]
            if j == 0:
                cx = cx + co * f0
                ax = ax + abs(co) * np.abs(f0)
            else:
                LHS[rx, ix(j)] -= co * E
                LHS[rx, iv(j)] -= co * C
        if tau_x is not None:
            cx = cx + tau_x[m] - (tau_x[m - 1] if m > 0 else 0.0)
            ax = ax + np.abs(tau_x[m]) + (np.abs(tau_x[m - 1]) if m > 0 else 0.0)
        rhs[rx] = cx
        absr[rx] = ax
        # ---- velocity
        h = dt * QI[m + 1, m + 1]
        LHS[rv, rv] += np.eye(n) - 0.5 * h * C
        LHS[rv, rx] -= 0.5 * h * E
        cv = dt * (S[m + 1] - ST[m + 1]) @ f_old
        av = abs(dt) * (np.abs(S[m + 1]) + np.abs(ST[m + 1])) @ np.abs(f_old)
        if m == 0:
            cv = cv + v0 + 0.5 * h * f0
            av = av + np.abs(v0) + abs(0.5 * h) * np.abs(f0)
        else:
            LHS[rv, iv(m)] -= np.eye(n) + 0.5 * h * C
            LHS[rv, ix(m)] -= 0.5 * h * E
        if tau_v is not None:
            cv = cv + tau_v[m] - (tau_v[m - 1] if m > 0 else 0.0)
            av = av + np.abs(tau_v[m]) + (np.abs(tau_v[m - 1]) if m > 0 else 0.0)
        rhs[rv] = cv
        absr[rv] = av
    perm = np.concatenate([np.concatenate([np.arange(m * n, (m + 1) * n), M * n + np.arange(m * n, (m + 1) * n)]) for m in range(M)])
    z, scale = _solve_with_scale(LHS, rhs, absr, nb=n, perm=perm)
    X = np.vstack([x0[None, :], z[: M * n].reshape(M, n)])
    V = np.vstack([v0[None, :], z[M * n :].reshape(M, n)])
    return {'X': X, 'V': V, 'Efield': X @ np.asarray(Emat, dtype=float).T, 'scale': max(scale, 1e-300)}


# ======================================================================================================================
# Runge-Kutta stage forms
# ======================================================================================================================
def rk_stages(c, A_list, splits, dt, t0, u0):
    """U_i = u0 + dt sum_s sum_{j<=i} A_s[i,j] F_s(U_j, t0 + c_j dt)  (lower triangular tableaux).  Returns U (S,n), F per split (S,n)."""
    S = len(c)
    n = splits[0].n
    times = [t0 + dt * ci for ci in c]
    dtype = _c(u0, *[s.A for s in splits])
    u0 = np.asarray(u0, dtype=dtype)
    LHS = np.eye(S * n, dtype=dtype)
    rhs = np.tile(u0, (S, 1)).astype(dtype)
    absr = np.tile(np.abs(u0), (S, 1)).astype(float)
    for s, A in zip(splits, A_list):
        A = np.asarray(A, dtype=float)
        LHS = LHS - dt * np.kron(A, s.A)
        G = s.G(times)
        rhs = rhs + dt * A @ G
        absr = absr + abs(dt) * np.abs(A) @ np.abs(G)
    x, scale = _solve_with_scale(LHS, rhs.reshape(-1), absr.reshape(-1), nb=n)
    U = x.reshape(S, n)
    F = [s.F(U, times) for s in splits]
    amax = max(float(np.max(np.sum(np.abs(s.A), axis=1), initial=0.0)) for s in splits)
    fscale = max(float(np.max(np.abs(f), initial=0.0)) for f in F) + scale * amax
    return {'U': U, 'F': F, 'scale': max(scale, 1e-300), 'fscale': max(fscale, scale)}


def rk_combine(u0, b_list, F_list, dt):
    """u0 + dt sum_s b_s^T F_s."""
    val = np.array(u0, dtype=_c(u0, *F_list))
    sc = np.abs(val).astype(float)
    for b, F in zip(b_list, F_list):
        b = np.asarray(b, dtype=float)
        val = val + dt * b @ F
        sc = sc + abs(dt) * np.abs(b) @ np.abs(F)
    return val, max(float(np.max(sc, initial=0.0)), 1e-300)


def rkn_stages(c, A, Abar, K, g, dt, t0, x0, v0):
    """Explicit Runge-Kutta-Nystrom stages for x'' = K x + g(t):
         X_i = x0 + dt c_i v0 + dt^2 sum_{j<i} Abar[i,j] f_j ,  V_i = v0 + dt sum_{j<i} A[i,j] f_j ,  f_j = K X_j + g(t0 + c_j dt)."""
    S = len(c)
    K = np.asarray(K, dtype=float)
    aK = np.abs(K)
    n = K.shape[0]
    X = np.zeros((S, n))
    V = np.zeros((S, n))
    Fs = np.zeros((S, n))
    sx = np.zeros((S, n))
    sv = np.zeros((S, n))
    sf = np.zeros((S, n))
    for i in range(S):
        X[i] = x0 + dt * c[i] * v0
        sx[i] = np.abs(x0) + abs(dt * c[i]) * np.abs(v0)
        V[i] = v0
        sv[i] = np.abs(v0)
        for j in range(i):
            X[i] += dt * dt * Abar[i, j] * Fs[j]
            sx[i] += dt * dt * abs(Abar[i, j]) * sf[j]
            V[i] += dt * A[i, j] * Fs[j]
            sv[i] += abs(dt * A[i, j]) * sf[j]
        gi = np.asarray(g(t0 + c[i] * dt)).reshape(n)
        Fs[i] = K @ X[i] + gi
        sf[i] = aK @ sx[i] + np.abs(gi)
    # magnitude recursion of the explicit stage process (no cancellation assumed)
    return {'X': X, 'V': V, 'F': Fs, 'scale_x': max(float(np.max(sx)), 1e-300), 'scale_v': max(float(np.max(sv)), float(np.max(sx)), 1e-300), 'scale_f': max(float(np.max(sf)), 1e-300)}


# ======================================================================================================================
# linear multistep:  u_{n+1} - dt beta_N f_{n+1} = - sum_i alpha_i u_i + sum_i dts_i beta_i f_i
# ======================================================================================================================
def multistep_step(alpha, beta, us, fs, ts, t_new, dt, split, dts=None):
    """One step of the alpha/beta recurrence as documented in MultiStep.__init__: the oldest value first, the last beta is
    the implicit weight; the weights of the explicit part are multiplied with the distance to the *next* cached time."""
    N = len(alpha)
    n = split.n
    if dts is None:
        dts = [ts[i + 1] - ts[i] for i in range(N - 1)] + [t_new - ts[-1]]
    rhs = np.zeros(n, dtype=_c(us[0], split.A))
    absr = np.zeros(n)
    for i in range(N):
        rhs = rhs - alpha[i] * us[i] + dts[i] * beta[i] * fs[i]
        # step sizes formed as differences of times carry an absolute rounding error eps |t|
        absr = absr + abs(alpha[i]) * np.abs(us[i]) + (abs(dts[i]) + abs(t_new)) * abs(beta[i]) * np.abs(fs[i])
    fac = dt * beta[-1]
    g = np.asarray(split.g(t_new)).reshape(n)
    LHS = np.eye(n) - fac * split.A
    x, scale = _solve_with_scale(LHS, rhs + fac * g, absr + abs(fac) * np.abs(g))
    return x, split.A @ x + g, max(scale, 1e-300)


# ======================================================================================================================
# diagonalisation sweeper (ParaDiag):  y = (G (x) I - dt Q (x) A)^-1 r   ==  G^-1 S (I - dt w_m A)^-1 S^-1 r
# ======================================================================================================================
def sweep_qdiag(Q, Ginv, A, dt, R):
    """R: (M, n) right-hand side per node.  Returns y (M, n) and a scale that contains cond(S) of the eigenvector basis
    of Q G^-1 (the implementation works in that basis)."""
    Q = np.asarray(Q, dtype=float)
    Ginv = np.asarray(Ginv)
    A = np.asarray(A)
    M, n = R.shape
    B = Q @ Ginv
    LHS = np.eye(M * n) - dt * np.kron(B, A)
    dtype = _c(LHS, R, 1j)
    z, scale = _solve_with_scale(LHS.astype(dtype), R.reshape(-1).astype(dtype), np.abs(R.reshape(-1)))
    Z = z.reshape(M, n)
    Y = Ginv @ Z
    w, S = np.linalg.eig(B)
    condS = float(np.linalg.cond(S))
    # node-local solves (I - dt w_m A)^-1 amplify too
    amp = max(float(np.linalg.norm(np.linalg.inv(np.eye(n) - dt * wm * A), 2)) for wm in w)
    gs = float(np.max(np.sum(np.abs(Ginv), axis=1)))
    return Y, max(scale, float(np.max(np.abs(R), initial=0.0)) * amp) * condS * max(gs, 1.0) + 1e-300


# ======================================================================================================================
# DAE sweeps  (E u' = A u + g(t)),  the unknowns are the derivatives U'
# ======================================================================================================================
def sweep_dae_fully_implicit(nodes, Q, QDf, E, A, g, dt, t0, u0, dU_old):
    """Huang-Jia-Minion:  E U'+_m = A ( u0 + dt sum_j (Q - QD)[m,j] U'_j + dt sum_{j<=m} QD[m,j] U'+_j ) + g(t_m);
    then U+ = 1 u0 + dt Q U'+ .  Everything MxM (node rows), vectors of full length n (differential and algebraic parts)."""
    M = len(nodes)
    E = np.asarray(E, dtype=float)
    A = np.asarray(A, dtype=float)
    n = A.shape[0]
    QD = np.asarray(QDf)[1:, 1:]
    times = [t0 + dt * c for c in nodes]
    G = np.array([np.asarray(g(t)).reshape(n) for t in times])
    LHS = np.kron(np.eye(M), E) - dt * np.kron(QD, A)
    base = u0[None, :] + dt * (Q - QD) @ dU_old
    rhs = base @ A.T + G
    absr = (np.abs(u0)[None, :] + abs(dt) * (np.abs(Q) + np.abs(QD)) @ np.abs(dU_old)) @ np.abs(A).T + np.abs(G)
    x, scale = _solve_with_scale(LHS, rhs.reshape(-1), absr.reshape(-1), nb=n, normwise=True)
    dU = x.reshape(M, n)
    U = u0[None, :] + dt * Q @ dU
    su = float(np.max(np.abs(u0)[None, :] + abs(dt) * np.abs(Q) @ np.abs(dU))) + abs(dt) * float(np.max(np.sum(np.abs(Q), axis=1))) * scale
    return {'dU': dU, 'U': U, 'scale_du': max(scale, 1e-300), 'scale_u': max(su, 1e-300)}


def sweep_dae_semi_implicit(nodes, Q, QDf, A11, A12, A21, A22, g1, g2, dt, t0, y0, dY_old):
    """Semi-explicit index-1 form  y' = A11 y + A12 z + g1,  0 = A21 y + A22 z + g2 ; unknowns per node (Y'_m, z_m):
         y_m = y0 + dt sum_j (Q - QD)[m,j] Y'_j + dt sum_{j<=m} QD[m,j] Y'+_j
         Y'+_m = A11 y_m + A12 z_m + g1(t_m) ,  0 = A21 y_m + A22 z_m + g2(t_m) ;   Y+ = 1 y0 + dt Q Y'+ ."""
    M = len(nodes)
    nd = np.asarray(A11).shape[0]
    na = np.asarray(A22).shape[0]
    QD = np.asarray(QDf)[1:, 1:]
    times = [t0 + dt * c for c in nodes]
    G1 = np.array([np.asarray(g1(t)).reshape(nd) for t in times])
    G2 = np.array([np.asarray(g2(t)).reshape(na) for t in times])
    base = y0[None, :] + dt * (Q - QD) @ dY_old
    abase = np.abs(y0)[None, :] + abs(dt) * (np.abs(Q) + np.abs(QD)) @ np.abs(dY_old)
    I = np.eye(M)
    LHS = np.block(
        [
            [np.kron(I, np.eye(nd)) - dt * np.kron(QD, A11), -np.kron(I, A12)],
            [-dt * np.kron(QD, A21), -np.kron(I, A22)],
        ]
    )
    r1 = base @ np.asarray(A11).T + G1
    r2 = base @ np.asarray(A21).T + G2
    a1 = abase @ np.abs(A11).T + np.abs(G1)
    a2 = abase @ np.abs(A21).T + np.abs(G2)
    x, scale = _solve_with_scale(LHS, np.concatenate([r1.reshape(-1), r2.reshape(-1)]), np.concatenate([a1.reshape(-1), a2.reshape(-1)]), normwise=True)
    dY = x[: M * nd].reshape(M, nd)
    Z = x[M * nd :].reshape(M, na)
    Y = y0[None, :] + dt * Q @ dY
    sy = float(np.max(np.abs(y0))) + abs(dt) * float(np.max(np.sum(np.abs(Q), axis=1))) * (scale + float(np.max(np.abs(dY), initial=0.0)))
    return {'dY': dY, 'Z': Z, 'Y': Y, 'scale': max(scale, 1e-300), 'scale_y': max(sy, 1e-300)}


def rk_dae_stages(c, Arks, E, A, g, dt, t0, u0):
    """RK for E u' = A u + g:  E U'_i = A (u0 + dt sum_{j<=i} a_ij U'_j) + g(t0 + c_i dt) ;  U_i = u0 + dt sum_j a_ij U'_j."""
    S = len(c)
    E = np.asarray(E, dtype=float)
    A = np.asarray(A, dtype=float)
    n = A.shape[0]
    Ark = np.asarray(Arks, dtype=float)
    times = [t0 + dt * ci for ci in c]
    G = np.array([np.asarray(g(t)).reshape(n) for t in times])
    LHS = np.kron(np.eye(S), E) - dt * np.kron(Ark, A)
    rhs = np.tile(A @ u0, (S, 1)) + G
    absr = np.tile(np.abs(A) @ np.abs(u0), (S, 1)) + np.abs(G)
    x, scale = _solve_with_scale(LHS, rhs.reshape(-1), absr.reshape(-1), nb=n, normwise=True)
    dU = x.reshape(S, n)
    U = u0[None, :] + dt * Ark @ dU
    su = float(np.max(np.abs(u0))) + abs(dt) * float(np.max(np.sum(np.abs(Ark), axis=1))) * (scale + float(np.max(np.abs(dU), initial=0.0)))
    return {'dU': dU, 'U': U, 'scale_du': max(scale, 1e-300), 'scale_u': max(su, 1e-300)}


# ======================================================================================================================
# C04: stability functions
# ======================================================================================================================
def sdc_stability(nodes, Q, w, QD_seq_list, z_list, right_is_node, do_coll_update):
    """R_k(z) of k = len(QD_seq) sweeps from a spread start for u' = sum_s lambda_s u, z_s = dt lambda_s.

    QD_seq_list: one sequence (length k) of MxM matrices per split (e.g. [QI_1..QI_k], [QE_1..QE_k]);
    z_list: one complex vector per split (same length Nz).  Returns R (Nz,) and a scale (Nz,).
    """
    M = len(nodes)
    zs = [np.asarray(z, dtype=complex) for z in z_list]
    Nz = len(zs[0])
    ztot = sum(zs)
    I = np.eye(M)
    U = np.ones((Nz, M), dtype=complex)
    sc = np.ones((Nz, M))
    k = len(QD_seq_list[0])
    for it in range(k):
        LHS = np.tile(I, (Nz, 1, 1)).astype(complex)
        RHSm = np.zeros((Nz, M, M), dtype=complex)
        aR = np.zeros((Nz, M, M))
        for z, seq in zip(zs, QD_seq_list):
            QD = np.asarray(seq[it], dtype=float)
            LHS -= z[:, None, None] * QD[None]
            RHSm += z[:, None, None] * (Q - QD)[None]
            aR += np.abs(z)[:, None, None] * (np.abs(Q) + np.abs(QD))[None]
        rhs = 1.0 + np.einsum('zij,zj->zi', RHSm, U)
        ar = 1.0 + np.einsum('zij,zj->zi', aR, sc)
        inv = np.linalg.inv(LHS)
        U = np.einsum('zij,zj->zi', inv, rhs)
        sc = np.einsum('zij,zj->zi', np.abs(inv), ar + np.einsum('zij,zj->zi', np.abs(LHS), np.abs(U)))
    if right_is_node and not do_coll_update:
        return U[:, -1], np.max(sc, axis=1)
    R = 1.0 + ztot * (U @ np.asarray(w))
    s = 1.0 + np.abs(ztot) * (sc @ np.abs(w))
    return R, np.maximum(s, np.max(sc, axis=1))


def collocation_stability(nodes, Q, w, z, right_is_node, do_coll_update):
    """1 + z w^T (I - zQ)^-1 1   or its last-node form  e_M^T (I - zQ)^-1 1."""
    M = len(nodes)
    z = np.asarray(z, dtype=complex)
    LHS = np.eye(M)[None] - z[:, None, None] * np.asarray(Q)[None]
    inv = np.linalg.inv(LHS)
    U = inv @ np.ones(M)
    sc = np.abs(inv) @ np.ones(M) + np.einsum('zij,zj->zi', np.abs(inv), np.einsum('zij,zj->zi', np.abs(LHS), np.abs(U)))
    if right_is_node and not do_coll_update:
        return U[:, -1], np.max(sc, axis=1)
    R = 1.0 + z * (U @ np.asarray(w))
    return R, np.maximum(1.0 + np.abs(z) * (sc @ np.abs(w)), np.max(sc, axis=1))


def sdc_taylor_mp(nodes, QD_seq, J, right_is_node, do_coll_update, dps=40, Qw=None):
    """Taylor coefficients c_0..c_J (mpmath) of R_k(z) for one split (z scalar) by power-series arithmetic:
    U^{k+1}(z) = (I - z QD)^-1 (1 + z (Q - QD) U^k(z)),  (I - z QD)^-1 = sum_i z^i QD^i."""
    with mp.workdps(dps):
        Qm, wm = Qw if Qw is not None else lagrange_Q_mp(nodes, dps=dps)
        M = len(nodes)
        Q = mp.matrix(Qm)
        w = mp.matrix([wm])  # 1 x M
        one = mp.matrix([1] * M)
        # U as list of coefficient vectors U[i] (degree i), truncated at J
        U = [one] + [mp.matrix([0] * M) for _ in range(J)]
        for QDf in QD_seq:
            QD = mp.matrix([[mp.mpf(float(v)) for v in row] for row in np.asarray(QDf, dtype=float)])
            D = Q - QD
            # rhs(z) = 1 + z D U(z)
            rhs = [one] + [D * U[i - 1] for i in range(1, J + 1)]
            # V = (I - z QD)^-1 rhs : V_i = rhs_i + QD V_{i-1}
            V = [rhs[0]]
            for i in range(1, J + 1):
                V.append(rhs[i] + QD * V[i - 1])
            U = V
        if right_is_node and not do_coll_update:
            return [U[i][M - 1] for i in range(J + 1)]
        c = [mp.mpf(1)]
        for i in range(1, J + 1):
            c.append((w * U[i - 1])[0])
        return c


def sdc_taylor2_mp(nodes, QI_seq, QE_seq, J, right_is_node, do_coll_update, dps=40):
    """Bivariate Taylor coefficients c[a][b] (a+b <= J) of the IMEX R_k(zI, zE)."""
    with mp.workdps(dps):
        Qm, wm = lagrange_Q_mp(nodes, dps=dps)
        M = len(nodes)
        Q = mp.matrix(Qm)
        w = mp.matrix([wm])
        one = mp.matrix([1] * M)
        zero = mp.matrix([0] * M)

        def get(U, a, b):
            if a < 0 or b < 0:
                return zero
            return U.get((a, b), zero)

        U = {(0, 0): one}
        for QIf, QEf in zip(QI_seq, QE_seq):
            QI = mp.matrix([[mp.mpf(float(v)) for v in row] for row in np.asarray(QIf, dtype=float)])
            QE = mp.matrix([[mp.mpf(float(v)) for v in row] for row in np.asarray(QEf, dtype=float)])
            DI, DE = Q - QI, Q - QE
            V = {}
            for tot in range(J + 1):
                for a in range(tot + 1):
                    b = tot - a
                    r = (one if (a, b) == (0, 0) else zero) + DI * get(U, a - 1, b) + DE * get(U, a, b - 1)
                    V[(a, b)] = r + QI * get(V, a - 1, b) + QE * get(V, a, b - 1)
            U = V
        c = {}
        for tot in range(J + 1):
            for a in range(tot + 1):
                b = tot - a
                if right_is_node and not do_coll_update:
                    c[(a, b)] = get(U, a, b)[M - 1]
                else:
                    c[(a, b)] = (mp.mpf(1) if (a, b) == (0, 0) else mp.mpf(0)) + (w * get(U, a - 1, b))[0] + (w * get(U, a, b - 1))[0]
        return c


def rk_stability(A_list, b_list, z_list, stiffly_accurate_last_stage=False):
    """R(z) = 1 + sum_s z_s b_s^T (I - sum_s z_s A_s)^-1 1   (or the last stage value)."""
    zs = [np.asarray(z, dtype=complex) for z in z_list]
    S = np.asarray(A_list[0]).shape[0]
    LHS = np.tile(np.eye(S), (len(zs[0]), 1, 1)).astype(complex)
    for z, A in zip(zs, A_list):
        LHS -= z[:, None, None] * np.asarray(A, dtype=float)[None]
    inv = np.linalg.inv(LHS)
    U = inv @ np.ones(S)
    sc = np.einsum('zij,zj->zi', np.abs(inv), 1.0 + np.einsum('zij,zj->zi', np.abs(LHS), np.abs(U)))
    if stiffly_accurate_last_stage:
        return U[:, -1], np.max(sc, axis=1)
    R = np.ones(len(zs[0]), dtype=complex)
    s = np.ones(len(zs[0]))
    for z, b in zip(zs, b_list):
        R = R + z * (U @ np.asarray(b, dtype=float))
        s = s + np.abs(z) * (sc @ np.abs(np.asarray(b, dtype=float)))
    return R, np.maximum(s, np.max(sc, axis=1))


def taylor_from_circle(R, r):
    """c_j = (1/N) sum_n R(z_n) z_n^-j  for z_n = r e^{2 pi i n / N} : numpy FFT."""
    R = np.asarray(R, dtype=complex)
    N = len(R)
    c = np.fft.fft(R) / N
    return c / r ** np.arange(N)


def taylor_from_torus(R2, rI, rE):
    R2 = np.asarray(R2, dtype=complex)
    NI, NE = R2.shape
    c = np.fft.fft2(R2) / (NI * NE)
    return c / (rI ** np.arange(NI))[:, None] / (rE ** np.arange(NE))[None, :]


def inv_factorial(j):
    return 1.0 / math.factorial(j)
