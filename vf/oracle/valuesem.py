"""Reference model for C13 (part 1): a value-semantics interpreter with explicit buffers.

No pySDC import.  The model keeps
    bufs : buffer id -> plain numpy.ndarray owned by the model (never handed out)
    env  : name -> Arr(kinds, buf, sel)  |  Rec(kind, comps{name: Arr}, extra{name: Arr})
and states exactly what the property promises:

  * arithmetic (binary, unary, numpy ufuncs) and AUGMENTED assignment allocate a fresh buffer and rebind only the
    target name -> no operand that another name still refers to is ever modified;
  * copy construction / .copy() / deepcopy allocate a fresh buffer (independent storage);
  * slicing (x[:], x[0]) and component access (x.impl, p.pos) share the buffer of x (a selector is appended);
  * item assignment (x[i] = s, x[:] = y, x.comp[i] = s, x.comp[:] = y.comp) writes through the buffer, i.e. is seen by
    every name whose selector covers the element;
  * the result carries the data type of the data-type operand(s).

Element values, dtype promotion and broadcasting are plain numpy on plain ndarrays (numpy is not under test; the
subclass plumbing of the pySDC data types is).  Every read copies, so the model never aliases by accident: sharing
exists only where a selector says so.
"""

import numpy as np

MULTI = {
    'imex_mesh': ('impl', 'expl'),
    'comp2_mesh': ('comp1', 'comp2'),
    'MeshDAE': ('diff', 'alg'),
}
RECS = {
    'particles': (('pos', 'position'), ('vel', 'velocity')),
    'fields': (('elec', 'electric'), ('magn', 'magnetic')),
}
REC_EXTRA = {'particles': ('q', 'm'), 'fields': ()}
# which record kinds define abs() (read from the class: fields has no __abs__)
REC_HAS_ABS = {'particles': True, 'fields': False}

UFUNC = {'+': np.add, '-': np.subtract, '*': np.multiply, '/': np.true_divide, '**': np.power, '%': np.remainder, '//': np.floor_divide}
UNARY = {'neg': np.negative, 'pos': np.positive, 'sin': np.sin, 'exp': np.exp}
IDX = {'first': lambda nd: (0,) * nd, 'last': lambda nd: (-1,) * nd, 'all': lambda nd: slice(None)}


class Reject(Exception):
    """The model says this operation is not defined (shape / dtype mismatch); the implementation must raise too."""


class Arr:
    __slots__ = ('kinds', 'buf', 'sel')

    def __init__(self, kinds, buf, sel=()):
        self.kinds = tuple(kinds)
        self.buf = buf
        self.sel = tuple(sel)


class Rec:
    __slots__ = ('kind', 'comps', 'extra')

    def __init__(self, kind, comps, extra):
        self.kind = kind
        self.comps = comps
        self.extra = extra


class State:
    def __init__(self):
        self.bufs = {}
        self.env = {}
        self.const = {}  # plain ndarray operands (name -> values); must never change
        self.scalars = {}
        self._next = 0
        self.alias_ops = 0  # ops that touched a buffer referenced by more than one name (non-trivial cases)

    # ---- buffers ----------------------------------------------------------------------
    def alloc(self, values):
        self._next += 1
        self.bufs[self._next] = np.array(values, copy=True)
        return self._next

    def view(self, a):
        v = self.bufs[a.buf]
        for s in a.sel:
            v = v[s]
        return v

    def read(self, a):
        return np.array(self.view(a), copy=True)

    def fresh(self, kinds, values):
        return Arr(kinds, self.alloc(values))

    def refcount(self, buf):
        n = 0
        for o in self.env.values():
            if isinstance(o, Arr):
                n += o.buf == buf
            else:
                n += any(c.buf == buf for c in o.comps.values())
        return n

    def _note(self, *objs):
        for o in objs:
            arrs = [o] if isinstance(o, Arr) else list(o.comps.values())
            if any(self.refcount(x.buf) > 1 for x in arrs):
                self.alias_ops += 1
                return

    # ---- helpers ----------------------------------------------------------------------
    def is_full_multi(self, a):
        """component access is defined for a multi-component array in its full (ncomp, *shape) layout"""
        if not isinstance(a, Arr) or len(a.kinds) != 1 or a.kinds[0] not in MULTI:
            return False
        return a.sel == () or all(s == slice(None) for s in a.sel)

    def _arith(self, f, *vals):
        try:
            with np.errstate(all='ignore'):
                return f(*vals)
        except (ValueError, TypeError) as e:
            raise Reject(str(e))

    def _kinds2(self, x, y):
        ks = list(x.kinds)
        for k in y.kinds:
            if k not in ks:
                ks.append(k)
        return tuple(ks)

    def _rec_bin(self, op, x, y):
        if x.kind != y.kind or op not in ('+', '-'):
            raise Reject('record arithmetic')
        comps = {}
        for name, ck in RECS[x.kind]:
            comps[name] = self.fresh((ck,), self._arith(UFUNC[op], self.read(x.comps[name]), self.read(y.comps[name])))
        extra = {n: self.fresh(('ndarray',), self.read(x.extra[n])) for n in x.extra}
        return Rec(x.kind, comps, extra)

    def _rec_scale(self, s, x):
        comps = {}
        for name, ck in RECS[x.kind]:
            comps[name] = self.fresh((ck,), self._arith(np.multiply, s, self.read(x.comps[name])))
        extra = {n: self.fresh(('ndarray',), self.read(x.extra[n])) for n in x.extra}
        return Rec(x.kind, comps, extra)

    def _rec_copy(self, x):
        comps = {name: self.fresh((ck,), self.read(x.comps[name])) for name, ck in RECS[x.kind]}
        extra = {n: self.fresh(('ndarray',), self.read(x.extra[n])) for n in x.extra}
        return Rec(x.kind, comps, extra)

    def _binary(self, op, x, y):
        if isinstance(x, Rec) or isinstance(y, Rec):
            if not (isinstance(x, Rec) and isinstance(y, Rec)):
                raise Reject('record with array')
            return self._rec_bin(op, x, y)
        return self.fresh(self._kinds2(x, y), self._arith(UFUNC[op], self.read(x), self.read(y)))

    def _write(self, a, idx, value):
        v = self.view(a)
        try:
            with np.errstate(all='ignore'):
                v[idx] = value
        except (ValueError, TypeError) as e:
            raise Reject(str(e))

    def comp_of(self, o, k):
        """Arr for component k (index for multi-component arrays, index into RECS for records)"""
        if isinstance(o, Rec):
            name, ck = RECS[o.kind][k]
            return o.comps[name]
        if not self.is_full_multi(o):
            raise Reject('no components')
        return Arr(('mesh',), o.buf, o.sel + (k,))

    # ---- the interpreter ----------------------------------------------------------------
    def apply(self, op):
        env = self.env
        kind = op[0]
        if kind == 'bin':  # tgt = x op y
            _, t, x, o, y = op
            self._note(env[x], env[y])
            env[t] = self._binary(o, env[x], env[y])
        elif kind == 'binS':  # tgt = x op s
            _, t, x, o, s = op
            self._note(env[x])
            if isinstance(env[x], Rec):
                raise Reject('record op scalar')
            env[t] = self.fresh(env[x].kinds, self._arith(UFUNC[o], self.read(env[x]), self.scalars[s]))
        elif kind == 'rbinS':  # tgt = s op x
            _, t, s, o, x = op
            self._note(env[x])
            if isinstance(env[x], Rec):
                if o != '*' or not isinstance(self.scalars[s], float):
                    raise Reject('record scalar')
                env[t] = self._rec_scale(self.scalars[s], env[x])
            else:
                env[t] = self.fresh(env[x].kinds, self._arith(UFUNC[o], self.scalars[s], self.read(env[x])))
        elif kind == 'binR':  # tgt = x op R
            _, t, x, o = op
            self._note(env[x])
            env[t] = self.fresh(env[x].kinds, self._arith(UFUNC[o], self.read(env[x]), self.const['R']))
        elif kind == 'rbinR':  # tgt = R op x
            _, t, o, x = op
            self._note(env[x])
            env[t] = self.fresh(env[x].kinds, self._arith(UFUNC[o], self.const['R'], self.read(env[x])))
        elif kind == 'iop':  # x op= y : fresh buffer, only x is rebound
            _, x, o, y = op
            self._note(env[x], env[y])
            env[x] = self._binary(o, env[x], env[y])
        elif kind == 'iopS':
            _, x, o, s = op
            self._note(env[x])
            env[x] = self.fresh(env[x].kinds, self._arith(UFUNC[o], self.read(env[x]), self.scalars[s]))
        elif kind == 'iopR':
            _, x, o = op
            self._note(env[x])
            env[x] = self.fresh(env[x].kinds, self._arith(UFUNC[o], self.read(env[x]), self.const['R']))
        elif kind == 'ufout':  # tgt = np.add(x, y, out=x): the data type drops `out`, results are always new arrays
            _, t, x, y = op
            self._note(env[x], env[y])
            env[t] = self.fresh(self._kinds2(env[x], env[y]), self._arith(np.add, self.read(env[x]), self.read(env[y])))
        elif kind == 'un':
            _, t, fn, x = op
            X = env[x]
            self._note(X)
            if isinstance(X, Rec):
                if fn in ('copycon', 'deepcopy'):
                    env[t] = self._rec_copy(X)
                else:
                    raise Reject('record unary')
            elif fn in UNARY:
                env[t] = self.fresh(X.kinds, self._arith(UNARY[fn], self.read(X)))
            elif fn in ('copycon', 'copy', 'deepcopy'):
                env[t] = self.fresh(X.kinds, self.read(X))
            elif fn == 'view':
                env[t] = Arr(X.kinds, X.buf, X.sel + (slice(None),))
            elif fn == 'row':
                if self.view(X).ndim < 2:
                    raise Reject('row of 1-d')
                env[t] = Arr(X.kinds, X.buf, X.sel + (0,))
            else:
                raise KeyError(fn)
        elif kind == 'comp':  # tgt = x.<component k>  (shares)
            _, t, x, k = op
            self._note(env[x])
            env[t] = self.comp_of(env[x], k)
        elif kind == 'set':  # x[idx] = s  (writes through)
            _, x, idx, s = op
            self._note(env[x])
            if isinstance(env[x], Rec):
                raise Reject('record setitem')
            self._write(env[x], IDX[idx](self.view(env[x]).ndim), self.scalars[s])
        elif kind == 'setfrom':  # x[:] = y
            _, x, y = op
            self._note(env[x], env[y])
            if isinstance(env[x], Rec) or isinstance(env[y], Rec):
                raise Reject('record setitem')
            self._write(env[x], slice(None), self.read(env[y]))
        elif kind == 'compset':  # x.comp_k[idx] = s
            _, x, k, idx, s = op
            self._note(env[x])
            c = self.comp_of(env[x], k)
            self._write(c, IDX[idx](self.view(c).ndim), self.scalars[s])
        elif kind == 'compfrom':  # x.comp_k[:] = y.comp_l
            _, x, k, y, l = op
            self._note(env[x], env[y])
            self._write(self.comp_of(env[x], k), slice(None), self.read(self.comp_of(env[y], l)))
        else:
            raise KeyError(kind)

    # ---- observation --------------------------------------------------------------------
    def values(self, name):
        o = self.env[name]
        if isinstance(o, Arr):
            return self.read(o)
        out = {n: self.read(c) for n, c in o.comps.items()}
        out.update({n: self.read(c) for n, c in o.extra.items()})
        return out

    def maxnorm(self, name):
        """abs() as the property defines it: max |x_i| over all entries (all components); None if the type has no abs"""
        o = self.env[name]
        if isinstance(o, Arr):
            vals = [self.read(o)]
        else:
            if not REC_HAS_ABS[o.kind]:
                return None
            vals = [self.read(c) for c in o.comps.values()]
        flat = [abs(complex(v)) for a in vals for v in a.ravel().tolist()]
        if any(f != f for f in flat):
            return float('nan')
        return max(flat) if flat else 0.0


def build_initial(kind, shape, dtype, pattern, data, scalars):
    """Initial state: names a, b, c of data type `kind` with base shape `shape`, aliasing `pattern` between a and b.

    data: dict with flat value lists 'a', 'b', 'c', 'R' (long enough), scalars: key -> python/numpy scalar.
    Returns State.  Layout: multi-component kinds have shape (2, *shape); records have comps of shape `shape`
    and extras q, m of length shape[-1]."""
    st = State()
    st.scalars = dict(scalars)
    dt = np.dtype(dtype)

    def vals(key, shp, off=0):
        n = 1
        for d in shp:
            n *= d
        return np.array(data[key][off : off + n], dtype=dt).reshape(shp)

    def mk(key):
        if kind in RECS:
            comps = {}
            for i, (name, ck) in enumerate(RECS[kind]):
                comps[name] = st.fresh((ck,), vals(key, shape, off=i * int(np.prod(shape, dtype=int))))
            extra = {}
            for j, n in enumerate(REC_EXTRA[kind]):
                extra[n] = st.fresh(('ndarray',), np.full(shape[-1], data['extra'][key][j], dtype=float))
            return Rec(kind, comps, extra)
        full = (2,) + tuple(shape) if kind in MULTI else tuple(shape)
        return st.fresh((kind,), vals(key, full))

    st.env['a'] = mk('a')
    A = st.env['a']
    if pattern == 'indep':
        st.env['b'] = mk('b')
    elif pattern == 'b_is_a':
        st.env['b'] = A  # same object: same buffer, same selector
    elif pattern == 'b_view_a':
        if isinstance(A, Rec):
            raise ValueError('no slicing of records')
        st.env['b'] = Arr(A.kinds, A.buf, (slice(None),))
    elif pattern == 'b_row_a':
        st.env['b'] = Arr(A.kinds, A.buf, (0,))
    elif pattern == 'b_comp_a':
        st.env['b'] = st.comp_of(A, 0)
    else:
        raise KeyError(pattern)
    st.env['c'] = mk('c')
    rshape = tuple(shape)
    st.const['R'] = np.array(data['R'][: int(np.prod(rshape))], dtype=float).reshape(rshape)
    return st
