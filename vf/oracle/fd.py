"""Reference model for C18 (finite differences).  Exact rational arithmetic, never calls pySDC.

Conventions (index space): grid point r sits at x_r = x_0 + r*dx.  With non-periodic boundaries the left boundary
point has index -1 and the right one index `size`; with periodic boundaries indices are taken modulo `size`.
Row r of a finite-difference matrix for the d-th derivative is judged on the monomials
    m_k(x) = ((x - x_r)/dx)**k ,  k < degree(r)
(a basis of the polynomials of degree < degree(r)); in index space these are the *integers* (j - r)**k, the
exact derivative at x_r is k! [k == d] / dx**d, the Dirichlet datum at index j_b is (j_b - r)**k and the Neumann
datum is k (j_b - r)**(k-1) / dx.
"""

from fractions import Fraction
from itertools import combinations
from math import factorial

import numpy as np

EPS = 2.0**-52


# ---------------------------------------------------------------------------------------------------------
# exact stencil weights
# ---------------------------------------------------------------------------------------------------------
def exact_weights(offsets, derivative):
    """Weights W_i (Fractions) with sum_i W_i s_i**j = j! [j == derivative] for j < n (dx = 1).

    Gauss-Jordan on the Vandermonde system in exact arithmetic.  Requires n > derivative, distinct offsets."""
    offs = [Fraction(int(s)) for s in offsets]
    n = len(offs)
    assert n > derivative and len(set(offs)) == n
    M = [[s**j for s in offs] + [Fraction(factorial(j) if j == derivative else 0)] for j in range(n)]
    for c in range(n):
        p = next(r for r in range(c, n) if M[r][c] != 0)
        M[c], M[p] = M[p], M[c]
        piv = M[c][c]
        M[c] = [v / piv for v in M[c]]
        for r in range(n):
            if r != c and M[r][c] != 0:
                f = M[r][c]
                M[r] = [a - f * b for a, b in zip(M[r], M[c])]
    return [M[r][n] for r in range(n)]


def taylor_amax(offsets):
    """max_{j<n,i} |s_i|**j / j!  — the largest entry of the n x n Taylor system a stencil on these offsets is solved
    from.  A backward-stable solve (LU with partial pivoting) leaves a defect in equation j bounded by a modest multiple
    of eps * amax * sum_i |w_i| (norm-wise, not row-wise), i.e. j! * amax * sum|w| in the moment form used here."""
    n = len(offsets)
    smax = max(abs(int(s)) for s in offsets) if n else 0
    return max([float(smax) ** j / factorial(j) for j in range(n)] + [1.0])


def moment_residuals(weights, offsets, derivative, upto):
    """Exact moment defects of float weights: for j < upto returns (|sum w s^j - j![j==d]|, scale_j) as floats with
    scale_j = sum_i |w_i s_i^j| + j![j==d] + j! * amax * sum_i |w_i|   (see taylor_amax).

    The float weights are converted to Fractions exactly, so no rounding happens in the evaluation."""
    w = [Fraction(float(v)) for v in weights]
    s = [Fraction(int(v)) for v in offsets]
    floor = Fraction(taylor_amax(offsets)) * sum(abs(a) for a in w)
    out = []
    for j in range(upto):
        terms = [a * b**j for a, b in zip(w, s)]
        tgt = factorial(j) if j == derivative else 0
        out.append((float(abs(sum(terms) - tgt)), float(sum(abs(t) for t in terms) + tgt + factorial(j) * floor)))
    return out


# ---------------------------------------------------------------------------------------------------------
# the lattice of stencil layouts
# ---------------------------------------------------------------------------------------------------------
STENCIL_TYPES = ('center', 'forward', 'backward', 'upwind')


def center_claimed(derivative, order):
    """The property claims the centred layout for even orders, and for odd orders only with odd derivatives."""
    return order % 2 == 0 or derivative % 2 == 1


def layout_ok(stencil_type, offsets):
    """Mild reading of the layout names (offsets sorted ascending, integers)."""
    lo, hi = int(offsets[0]), int(offsets[-1])
    if stencil_type == 'forward':
        return lo == 0
    if stencil_type == 'backward':
        return hi == 0
    if stencil_type == 'center':
        return lo <= 0 <= hi and abs(lo + hi) <= 1
    if stencil_type == 'upwind':
        return lo <= 0 and hi <= 1 and -lo >= hi
    return False


def offset_sets(radius, max_size, min_size=2):
    """All subsets of {-radius..radius} with min_size <= size <= max_size, in a canonical order
    (size, then max |offset|, then lexicographic) so that 'the first failing one' is the simplest."""
    pool = list(range(-radius, radius + 1))
    out = []
    for n in range(min_size, max_size + 1):
        out += [tuple(c) for c in combinations(pool, n)]
    out.sort(key=lambda c: (len(c), max(abs(v) for v in c), c))
    return out


# ---------------------------------------------------------------------------------------------------------
# grids
# ---------------------------------------------------------------------------------------------------------
def grid_ref(size, periodic, left, right):
    """Exact (Fraction) mesh width and points for float end points."""
    L = Fraction(float(right)) - Fraction(float(left))
    if periodic:
        dx = L / size
        x = [Fraction(float(left)) + dx * i for i in range(size)]
    else:
        dx = L / (size + 1)
        x = [Fraction(float(left)) + dx * (i + 1) for i in range(size)]
    return dx, x


# ---------------------------------------------------------------------------------------------------------
# periodic reference matrix and row-wise moment tests
# ---------------------------------------------------------------------------------------------------------
def periodic_reference(offsets, derivative, size):
    """Dense reference circulant (dx = 1) from exact weights, plus the 0/1 support mask."""
    W = exact_weights(offsets, derivative)
    R = np.zeros((size, size))
    mask = np.zeros((size, size), dtype=bool)
    for r in range(size):
        for s, w in zip(offsets, W):
            R[r, (r + int(s)) % size] += float(w)
            mask[r, (r + int(s)) % size] = True
    return R, mask


def wrapped_offsets(offsets, size):
    """D[r, j] = the stencil offset s with (r + s) % size == j (requires size >= stencil width), else 0."""
    D = np.zeros((size, size))
    for r in range(size):
        for s in offsets:
            D[r, (r + int(s)) % size] = int(s)
    return D


def interior_rows(offsets, size):
    lo, hi = int(min(offsets)), int(max(offsets))
    return [r for r in range(size) if r + lo >= 0 and r + hi <= size - 1]


def row_moments(A1, bL, bR, dxpow, derivative, rows, degrees, kinds, neumann_scale):
    """Row-wise exactness in index space.

    A1: dense matrix already multiplied by dx**derivative; bL/bR: boundary vectors for unit datum on the left / right
    (right/left datum zero), multiplied by dx**derivative.  kinds = ('dirichlet'|'neumann', same for right);
    neumann_scale = 1/dx (the Neumann datum of m_k carries 1/dx; the caller passes what it multiplied in).
    For every row r in `rows` and k < degrees[r] returns the worst (residual, scale, r, k) by residual/scale.
    """
    size = A1.shape[0]
    j = np.arange(size)
    worst = (0.0, 1.0, None, None)
    worst_ratio = -1.0
    n_eval = 0
    for r in rows:
        d = (j - r).astype(float)
        # points the row really uses (incl. the boundary points) -> norm-wise floor of the solve that produced it
        supp = [int(v) for v in d[A1[r] != 0]] + ([-1 - r] if bL[r] != 0 else []) + ([size - r] if bR[r] != 0 else [])
        wsum = float(np.sum(np.abs(A1[r]))) + abs(bL[r]) * (neumann_scale if kinds[0] == 'neumann' else 1.0)
        wsum += abs(bR[r]) * (neumann_scale if kinds[1] == 'neumann' else 1.0)
        floor = taylor_amax(supp) * wsum
        for k in range(degrees[r]):
            col = d**k if k > 0 else np.ones(size)
            terms = A1[r] * col
            vals = []
            for kind, jb in ((kinds[0], -1 - r), (kinds[1], size - r)):
                if kind == 'dirichlet':
                    vals.append(float(jb) ** k if k > 0 else 1.0)
                else:
                    vals.append(k * float(jb) ** (k - 1) * neumann_scale if k > 0 else 0.0)
            tb = (vals[0] * bL[r], vals[1] * bR[r])
            tgt = float(factorial(k)) if k == derivative else 0.0
            res = abs(float(np.sum(terms)) + tb[0] + tb[1] - tgt)
            scale = float(np.sum(np.abs(terms))) + abs(tb[0]) + abs(tb[1]) + tgt + factorial(k) * floor
            n_eval += 1
            ratio = res / scale if scale > 0 else (0.0 if res == 0 else float('inf'))
            if ratio > worst_ratio:
                worst_ratio = ratio
                worst = (res, scale, r, k)
    return worst, n_eval


# ---------------------------------------------------------------------------------------------------------
# boundary closures: what the property lets us demand of each row
# ---------------------------------------------------------------------------------------------------------
def closure_degrees(offsets, n_exact_interior, derivative, order, size, kinds, reduce, neumann_order):
    """Exactness degree per row (row r must reproduce the derivative of every polynomial of degree < deg[r]).

    interior rows (stencil fits between the two boundary points exclusive): the stencil's own exactness;
    closure rows, shifted treatment: degree < derivative+order with Dirichlet data, degree <= order of the one-sided
    Neumann closure with Neumann data (and never more than the Dirichlet figure);
    closure rows, `reduce` treatment at distance dist from the boundary: the documented centred stencil of order
    2*dist (degree < derivative + 2*dist) where such a stencil can exist next to a boundary (derivative <= 2), plain
    consistency (degree <= derivative) otherwise.  Returns (deg list, closure side per row: None/0/1/'both').
    """
    lo, hi = int(min(offsets)), int(max(offsets))
    deg, side = [], []
    for r in range(size):
        touches_l = r + lo < 0
        touches_r = r + hi > size - 1
        if not touches_l and not touches_r:
            deg.append(n_exact_interior)
            side.append(None)
            continue
        # the implementation (and any sensible closure) treats the right side last; a row touching both sides is
        # only judged for consistency on the weaker of the two closures
        ds = []
        for s, touched in ((0, touches_l), (1, touches_r)):
            if not touched:
                continue
            dist = r + 1 if s == 0 else size - r
            if reduce[s]:
                dd = derivative + 2 * dist if derivative <= 2 else derivative + 1
            else:
                dd = derivative + order
            if kinds[s] == 'neumann':
                dd = min(dd, neumann_order[s] + 1)
            ds.append(dd)
        deg.append(min(ds))
        side.append('both' if len(ds) == 2 else (0 if touches_l else 1))
    return deg, side


def closure_fits(offsets, derivative, order, size, kinds, reduce, neumann_order):
    """Can the closure stencils be placed on `size` unknowns at all?  (If not, the outcome is counted, not judged.)"""
    lo, hi = int(min(offsets)), int(max(offsets))
    for s, width in ((0, -lo), (1, hi)):
        for i in range(max(width, 0)):
            need = (2 * (i + 1) + derivative - (derivative + 1) % 2 - 1) if reduce[s] else (order + derivative - 1)
            if kinds[s] == 'neumann':
                need = max(need, neumann_order[s])
            if need > size:
                return False
    return True


# ---------------------------------------------------------------------------------------------------------
# N-D: Kronecker sums by index arithmetic (C-ordered flattening, same operator along every axis)
# ---------------------------------------------------------------------------------------------------------
def kron_sum_triplets(A1, dim):
    """(rows, cols, vals) of  sum_a  I x..x A1 (axis a) x..x I  for a dense 1D matrix A1; duplicates not merged."""
    size = A1.shape[0]
    ii, jj = np.nonzero(A1)
    vv = A1[ii, jj]
    rows, cols, vals = [], [], []
    for a in range(dim):
        stride = size ** (dim - 1 - a)
        others = np.zeros(1, dtype=np.int64)
        for b in range(dim):
            if b == a:
                continue
            others = (others[:, None] + (np.arange(size) * size ** (dim - 1 - b))[None, :]).ravel()
        rows.append((ii[:, None] * stride + others[None, :]).ravel())
        cols.append((jj[:, None] * stride + others[None, :]).ravel())
        vals.append(np.repeat(vv, len(others)))
    return np.concatenate(rows), np.concatenate(cols), np.concatenate(vals)


def kron_sum_dense(A1, dim):
    size = A1.shape[0]
    n = size**dim
    out = np.zeros((n, n))
    r, c, v = kron_sum_triplets(A1, dim)
    np.add.at(out, (r, c), v)
    return out


def kron_sum_vector(b1, dim):
    """Boundary vector of the N-D operator when the same scalar data holds on all faces of a side:
    sum_a 1 x..x b1 (axis a) x..x 1."""
    size = len(b1)
    out = np.zeros((size,) * dim)
    for a in range(dim):
        shape = [1] * dim
        shape[a] = size
        out = out + np.asarray(b1).reshape(shape)
    return out.ravel()
