"""Reference model for C17 (spectral helper matrices).  Never calls pySDC.

Two independent sources of truth:

* `numpy.polynomial.chebyshev` (chebder / chebint / chebval) for everything that stays in the Chebyshev-T basis;
* exact integer / Fraction polynomial arithmetic in the power basis for everything that changes basis
  (T <-> U, T -> ultraspherical C^(lambda), C^(lambda) -> C^(mu), Dirichlet recombination): the polynomials
  T_n, C^(lambda)_n are generated from their three-term recurrences with Python integers, differentiated exactly and
  re-expanded in the target basis by exact triangular elimination.  No closed-form entry formula of the papers the
  implementation follows is used.
* closed-form complex exponentials for the Fourier basis.

Conventions: a coefficient vector c of length N on [x0, x1] represents u(x) = sum_k c_k T_k(t), t = (x - b)/a,
a = (x1-x0)/2, b = (x1+x0)/2 (Chebyshev family) or u(x) = 1/N sum_m c_m exp(i k_m (x - x0)), k_m = 2 pi m / L with the
signed mode numbers m = 0, 1, .., ceil(N/2)-1, -floor(N/2), .., -1 (Fourier; for even N the Nyquist mode is carried
with the negative wavenumber, as `get_wavenumbers` documents).
"""

from fractions import Fraction
from functools import lru_cache

import numpy as np
from numpy.polynomial import chebyshev as C

EPS = 2.0**-52
NMAX = 66


# ---------------------------------------------------------------------------------------------------------
# exact polynomials (ascending power-basis coefficient lists of Python ints / Fractions)
# ---------------------------------------------------------------------------------------------------------
def _mulx(p):
    return [0] + list(p)


def _axpy(a, p, b, q):
    n = max(len(p), len(q))
    p = list(p) + [0] * (n - len(p))
    q = list(q) + [0] * (n - len(q))
    return [a * u + b * v for u, v in zip(p, q)]


@lru_cache(maxsize=None)
def family(lmbda, nmax=NMAX):
    """Power-basis coefficients of C^(lmbda)_n, n <= nmax;  lmbda = 0 means Chebyshev T (not the Gegenbauer limit).

    T:  T_0 = 1, T_1 = x, T_{n+1} = 2 x T_n - T_{n-1}
    C^(l), l >= 1:  C_0 = 1, C_1 = 2 l x,  n C_n = 2 (n + l - 1) x C_{n-1} - (n + 2 l - 2) C_{n-2}
    """
    if lmbda == 0:
        P = [[1], [0, 1]]
        for n in range(2, nmax + 1):
            P.append(_axpy(2, _mulx(P[n - 1]), -1, P[n - 2]))
        return P[: nmax + 1]
    P = [[Fraction(1)], [Fraction(0), Fraction(2 * lmbda)]]
    for n in range(2, nmax + 1):
        q = _axpy(Fraction(2 * (n + lmbda - 1), n), _mulx(P[n - 1]), -Fraction(n + 2 * lmbda - 2, n), P[n - 2])
        P.append(q)
    return P[: nmax + 1]


@lru_cache(maxsize=None)
def dirichlet_family(nmax=NMAX):
    """Dirichlet recombination basis of the Dedalus paper: D_0 = T_0, D_1 = T_1, D_n = T_n - T_{n-2}."""
    T = family(0, nmax)
    return [T[0], T[1]] + [_axpy(1, T[n], -1, T[n - 2]) for n in range(2, nmax + 1)]


def deriv(p, m=1):
    p = list(p)
    for _ in range(m):
        p = [k * p[k] for k in range(1, len(p))] or [0]
    return p


def expand(poly, basis):
    """Coefficients (Fractions) of `poly` in the degree-graded `basis` (basis[n] has exact degree n)."""
    poly = [Fraction(v) for v in poly]
    while len(poly) > 1 and poly[-1] == 0:
        poly.pop()
    out = [Fraction(0)] * len(poly)
    for d in range(len(poly) - 1, -1, -1):
        if poly[d] == 0:
            continue
        b = basis[d]
        f = poly[d] / b[d]
        out[d] = f
        for i in range(d + 1):
            if b[i] != 0:
                poly[i] -= f * b[i]
    return out


def _basis(name):
    if name == 'D':
        return dirichlet_family()
    return family(int(name))


@lru_cache(maxsize=None)
def conversion_exact(src, dst, derivative=0, n=NMAX - 1):
    """Exact matrix M (list of columns of Fractions, size n x n): column k = coefficients in basis `dst` of the
    `derivative`-th derivative of the k-th polynomial of basis `src`.  src/dst: 0 (T), 1 (U), 2, 3 (ultraspherical)
    or 'D'."""
    S, Dn = _basis(src), _basis(dst)
    cols = []
    for k in range(n):
        c = expand(deriv(S[k], derivative), Dn)
        cols.append(c + [Fraction(0)] * (n - len(c)))
    return cols


def conversion(src, dst, N, derivative=0):
    """float N x N leading block (valid because every map involved is degree-graded)."""
    cols = conversion_exact(src, dst, derivative)
    M = np.zeros((N, N))
    for k in range(N):
        for i in range(min(N, k + 1)):
            v = cols[k][i]
            if v != 0:
                M[i, k] = float(v)
    return M


# ---------------------------------------------------------------------------------------------------------
# Chebyshev-T references through numpy.polynomial
# ---------------------------------------------------------------------------------------------------------
def affine(x0, x1):
    return (x1 - x0) / 2.0, (x1 + x0) / 2.0


def cheb_nodes_ref(N):
    """Reference-interval Gauss-Chebyshev points in the helper's ordering (descending)."""
    return np.cos(np.pi * (np.arange(N) + 0.5) / N)


def cheb_grid(N, x0, x1):
    a, b = affine(x0, x1)
    return a * cheb_nodes_ref(N) + b


def cheb_eval_matrix(N):
    """V[j, k] = T_k(t_j): values on the grid of the k-th basis polynomial (the inverse transform of e_k)."""
    t = cheb_nodes_ref(N)
    return np.stack([C.chebval(t, np.eye(N)[k]) for k in range(N)], axis=1)


def cheb_analysis_matrix(N):
    """F with F @ V = I: discrete orthogonality of T_k on the Gauss-Chebyshev points,
    F[k, j] = (2 - [k == 0]) / N * T_k(t_j)."""
    V = cheb_eval_matrix(N)
    w = np.full(N, 2.0 / N)
    w[0] = 1.0 / N
    return w[:, None] * V.T


def cheb_diff(N, p, a):
    """T -> T differentiation: exact integer table (numpy's chebder divides by (j-2) in its recursion and is only
    accurate to a few ulp; it is used as a cross-check in `cheb_diff_numpy`)."""
    return conversion(0, 0, N, derivative=p) / a**p


def cheb_diff_numpy(N, p, a):
    M = np.zeros((N, N))
    for k in range(N):
        c = C.chebder(np.eye(N)[k], m=p) if k >= p else np.zeros(1)
        M[: len(c), k] = c
    return M / a**p


def cheb_int_lbnd0(N):
    """Antiderivative vanishing at t = 0, truncated to N coefficients; also the sum-of-|terms| scale of row 0."""
    M = np.zeros((N, N))
    S0 = np.zeros(N)
    for k in range(N):
        c = C.chebint(np.eye(N)[k], lbnd=0)
        M[:, k] = c[:N]
        S0[k] = np.sum(np.abs(c[1:]))
    return M, S0


def cheb_int_free(N, a):
    """Antiderivative in x with zero T_0 coefficient (the ultraspherical integration matrix), truncated."""
    M = np.zeros((N, N))
    for k in range(N):
        c = C.chebint(np.eye(N)[k], lbnd=0, scl=a)
        M[1:, k] = c[1:N]
    return M


def cheb_definite_integrals(N, a):
    """int_{x0}^{x1} T_k(t(x)) dx,  and the sum-of-|terms| scale."""
    out, sc = np.zeros(N), np.zeros(N)
    for k in range(N):
        c = C.chebint(np.eye(N)[k], lbnd=-1, scl=a)
        out[k] = C.chebval(1.0, c)
        sc[k] = np.sum(np.abs(c))
    return out, sc


def cheb_point_values(N, t, m=0):
    """d^m/dt^m T_k at the reference point t, for all k < N."""
    out = np.zeros(N)
    for k in range(N):
        c = C.chebder(np.eye(N)[k], m=m) if m else np.eye(N)[k]
        out[k] = C.chebval(float(t), c)
    return out


# ---------------------------------------------------------------------------------------------------------
# Fourier
# ---------------------------------------------------------------------------------------------------------
def fourier_modes(N):
    """Signed integer mode numbers in FFT ordering; Nyquist (even N) negative."""
    return np.array(list(range(0, (N + 1) // 2)) + list(range(-(N // 2), 0)), dtype=float)


def fourier_wavenumbers(N, L):
    return fourier_modes(N) * (2 * np.pi / L)


def fourier_grid(N, x0, x1):
    return x0 + (x1 - x0) * np.arange(N) / N


def fourier_synthesis_matrix(N):
    """V[j, m] = exp(2 pi i m j / N) / N : grid values of the m-th basis function (inverse transform of e_m)."""
    j = np.arange(N)
    m = fourier_modes(N)
    return np.exp(2j * np.pi * np.outer(j, m) / N) / N


def fourier_analysis_matrix(N):
    j = np.arange(N)
    m = fourier_modes(N)
    return np.exp(-2j * np.pi * np.outer(m, j) / N)


def ipow(p):
    return [1, 1j, -1, -1j][p % 4]


def fourier_diff_symbol(N, L, p):
    return ipow(p) * fourier_wavenumbers(N, L) ** p


def fourier_int_symbol(N, L, p):
    """p-th antiderivative symbol on the non-zero modes; the zero mode has no periodic antiderivative (nan = unjudged)."""
    k = fourier_wavenumbers(N, L)
    out = np.full(N, np.nan, dtype=complex)
    nz = k != 0
    out[nz] = 1.0 / (ipow(p) * k[nz] ** p)
    return out


# ---------------------------------------------------------------------------------------------------------
# tensor products by index arithmetic
# ---------------------------------------------------------------------------------------------------------
def kron_nd(mats):
    """Kronecker product of dense matrices for C-ordered flattening, via einsum (no np.kron / scipy)."""
    mats = [np.asarray(m) for m in mats]
    if len(mats) == 1:
        return mats[0]
    if len(mats) == 2:
        A, B = mats
        return np.einsum('ab,cd->acbd', A, B).reshape(A.shape[0] * B.shape[0], A.shape[1] * B.shape[1])
    A, B, D = mats
    return np.einsum('ab,cd,ef->acebdf', A, B, D).reshape(
        A.shape[0] * B.shape[0] * D.shape[0], A.shape[1] * B.shape[1] * D.shape[1]
    )


def outer_nd(vecs):
    out = np.asarray(vecs[0])
    for v in vecs[1:]:
        out = np.multiply.outer(out, np.asarray(v))
    return out
