"""Reference models for C11 (transfer operators).  Nothing in here imports pySDC or qmat.

Space (exact rational arithmetic, fractions.Fraction)
    periodic_row(t, nc, p)     Lagrange weights of the p nearest coarse points j/nc (periodic images included) at t;
                               p <= nc (p distinct coarse points must exist)
    dirichlet_row(t, nc, p)    Lagrange weights of the p nearest points of the padded coarse grid
                               {0, 1/(nc+1), ..., nc/(nc+1), 1} at t; the two boundary points carry the value 0, so their
                               weights are dropped
    interpolation_matrix(...)  all rows, as a list of {column: Fraction}
Time (mpmath, 50 digits, from float nodes)
    lagrange_matrix(targets, sources)  L[i][j] = l_j^{sources}(targets[i])
    lebesgue(targets, sources)         Lambda[i] = sum_j |l_j(targets[i])|
FFT
    trig_mode(n, k, kind), trig_mode2d(...)   samples of cos / sin (2 pi k x) on the grid i/n (float, computed directly)
"""

from fractions import Fraction as Fr

import mpmath

ctx = mpmath.mp.clone()
ctx.dps = 50
mpf = ctx.mpf


# ---------------------------------------------------------------------------------------------------- exact Lagrange weights
def lagrange_weights(xs, t):
    """weights w_j with sum_j w_j q(xs_j) = q(t) for every polynomial q of degree < len(xs); xs distinct Fractions."""
    out = []
    for j, xj in enumerate(xs):
        num, den = Fr(1), Fr(1)
        for k, xk in enumerate(xs):
            if k != j:
                num *= t - xk
                den *= xj - xk
        out.append(num / den)
    return out


def _nearest(cands, t, p):
    """cands: list of (position, column or None).  The p candidates nearest to t; raises if the cut is ambiguous."""
    ranked = sorted(cands, key=lambda c: (abs(c[0] - t), c[0]))
    if len(ranked) < p:
        raise ValueError('not enough points for this order')
    if len(ranked) > p and abs(ranked[p - 1][0] - t) == abs(ranked[p][0] - t):
        raise ArithmeticError('the p nearest points are not unique')
    return sorted(ranked[:p])


def periodic_row(t, nc, p):
    """t Fraction in [0, 1); coarse points j/nc with all periodic images.  Returns {column: weight}."""
    t = Fr(t)
    if p > nc:
        raise ValueError('order exceeds the number of coarse points: the stencil would need the same point twice')
    if (t * nc).denominator == 1:  # t is a coarse point: the interpolant takes the nodal value, whatever the other points are
        return {int(t * nc) % nc: Fr(1)}
    cands = [(Fr(j, nc) + s, j) for s in (-1, 0, 1) for j in range(nc)]
    sel = _nearest(cands, t, p)
    w = lagrange_weights([c[0] for c in sel], t)
    row = {}
    for (pos, col), wi in zip(sel, w):
        row[col] = row.get(col, Fr(0)) + wi
    return row


def dirichlet_row(t, nc, p):
    """t Fraction in (0, 1); padded coarse grid {0} + {(j+1)/(nc+1)} + {1}; boundary points carry the value 0."""
    t = Fr(t)
    h = Fr(1, nc + 1)
    if (t / h).denominator == 1 and 0 < t < 1:
        return {int(t / h) - 1: Fr(1)}
    cands = [(Fr(0), None)] + [((j + 1) * h, j) for j in range(nc)] + [(Fr(1), None)]
    sel = _nearest(cands, t, p)
    w = lagrange_weights([c[0] for c in sel], t)
    return {col: wi for (pos, col), wi in zip(sel, w) if col is not None}


def fine_points(nf, periodic):
    return [Fr(i, nf) for i in range(nf)] if periodic else [Fr(i + 1, nf + 1) for i in range(nf)]


def interpolation_matrix(nf, nc, p, periodic):
    """list (one entry per fine point) of {coarse column: Fraction weight}; raises ValueError if the order cannot be
    served by the grid (fewer than p points available on a non-periodic grid)."""
    rowf = periodic_row if periodic else dirichlet_row
    return [rowf(t, nc, p) for t in fine_points(nf, periodic)]


def dense(rows, ncols):
    import numpy as np

    A = np.zeros((len(rows), ncols))
    for i, r in enumerate(rows):
        for j, w in r.items():
            A[i, j] = float(w)
    return A


def dense_abs_rowsum(rows):
    return [float(sum(abs(w) for w in r.values())) for r in rows]


# ---------------------------------------------------------------------------------------------------- time: node-to-node matrices
def lagrange_matrix(targets, sources):
    return _lag([mpf(float(x)) for x in targets], [mpf(float(x)) for x in sources])


def lagrange_matrix_abs_derivs(targets, sources, d_target, d_source):
    """first-order bound  sum_k |dL_ij/ds_k| d_source[k] + |dL_ij/dt_i| d_target[i]  by forward differencing (h=1e-20)."""
    import numpy as np

    base = lagrange_matrix(targets, sources)
    nT, nS = len(targets), len(sources)
    out = np.zeros((nT, nS))
    h = mpf(10) ** (-20)
    t = [mpf(float(x)) for x in targets]
    s = [mpf(float(x)) for x in sources]
    for k in range(nS):
        sp = list(s)
        sp[k] = s[k] + h
        Lp = _lag(t, sp)
        for i in range(nT):
            for j in range(nS):
                out[i, j] += float(abs(Lp[i][j] - base[i][j]) / h) * d_source[k]
    tp = [x + h for x in t]
    Lp = _lag(tp, s)
    for i in range(nT):
        for j in range(nS):
            out[i, j] += float(abs(Lp[i][j] - base[i][j]) / h) * d_target[i]
    return base, out


def _lag(t, s):
    den = []
    for j in range(len(s)):
        d = mpf(1)
        for k in range(len(s)):
            if k != j:
                d *= s[j] - s[k]
        den.append(d)
    L = []
    for ti in t:
        row = []
        for j in range(len(s)):
            n = mpf(1)
            for k in range(len(s)):
                if k != j:
                    n *= ti - s[k]
            row.append(n / den[j])
        L.append(row)
    return L


# ---------------------------------------------------------------------------------------------------- FFT: trigonometric samples
def trig_mode(n, k, kind):
    """cos / sin (2 pi k i / n), i = 0..n-1; the phase is reduced in integer arithmetic so the argument stays below 2 pi"""
    import numpy as np

    r = (k * np.arange(n)) % n
    return np.cos(2 * np.pi * r / n) if kind == 'cos' else np.sin(2 * np.pi * r / n)


def trig_mode2d(n, k, l, kind):
    import numpy as np

    i = np.arange(n)
    r = (k * i[:, None] + l * i[None, :]) % n
    return np.cos(2 * np.pi * r / n) if kind == 'cos' else np.sin(2 * np.pi * r / n)
