"""Reference model for C16 (field files) and C16 block covers.  Never imports pySDC.

The model of a field file is what the property talks about, nothing more: a header and a list of completed
records (time bits, field bits).  It knows nothing about the byte layout on disk: the number of completed
records of a crash state comes from the *history* (how many appends returned), never from a file size.

Also here: the fixed pools of "nasty" scalar values per real dtype (as raw byte patterns, so that NaN payloads,
signalling NaNs, signed zeros, denormals and the padding bytes of x87 long doubles are under our control) and
of grid coordinates.
"""

import struct

import numpy as np

# ---------------------------------------------------------------------------------------------------------
# value pools
# ---------------------------------------------------------------------------------------------------------

def real_name(dname):
    """name of the real dtype underlying `dname` ('complex128' -> 'float64')"""
    return np.dtype(dname).type(0).real.dtype.name


def _is_x87(R):
    return np.finfo(R).nmant == 63 and np.dtype(R).itemsize == 16


def real_pool(rname):
    """List of (label, bytes) for the real dtype `rname`: one scalar each, little endian raw bytes."""
    R = np.dtype(rname).type
    fi = np.finfo(R)
    isz = np.dtype(R).itemsize
    x87 = _is_x87(R)

    def raw(v):
        b = bytearray(np.array([v], dtype=R).tobytes())
        if x87:
            b[10:16] = b'\0' * 6  # padding bytes of arithmetic results are indeterminate: fix them
        return bytes(b)

    with np.errstate(all='ignore'):
        pool = [
            ('+0', raw(R(0))),
            ('-0', raw(-R(0))),
            ('1', raw(R(1))),
            ('-1.5', raw(R(-1.5))),
            ('1/3', raw(R(1) / R(3))),
            ('min_subnormal', raw(fi.smallest_subnormal)),
            ('max_subnormal', raw(fi.tiny - fi.smallest_subnormal)),
            ('-min_subnormal', raw(-fi.smallest_subnormal)),
            ('max', raw(fi.max)),
            ('-max', raw(-fi.max)),
            ('+inf', raw(R(np.inf))),
            ('-inf', raw(-R(np.inf))),
            ('qnan', raw(R(np.nan))),
        ]
    # NaN with payload: flip low mantissa bits of the quiet NaN (little endian: low mantissa bytes come first)
    b = bytearray(pool[-1][1])
    b[0] ^= 0xEF
    b[1] ^= 0xBE
    pool.append(('qnan_payload', bytes(b)))
    # negative NaN with payload
    b2 = bytearray(b)
    sign_byte = 9 if x87 else isz - 1
    b2[sign_byte] ^= 0x80
    b2[2] ^= 0xAD
    pool.append(('-qnan_payload', bytes(b2)))
    # signalling NaN (quiet bit clear, payload 1)
    if np.dtype(rname) == np.dtype('float32'):
        pool.append(('snan', struct.pack('<I', 0x7F800001)))
    elif np.dtype(rname) == np.dtype('float64'):
        pool.append(('snan', struct.pack('<Q', 0x7FF0000000000001)))
    elif x87:
        pool.append(('snan', struct.pack('<QH', 0x8000000000000001, 0x7FFF) + b'\0' * 6))
        # non-zero padding bytes must survive a raw round trip as well
        pool.append(('1_padded', struct.pack('<QH', 0x8000000000000000, 0x3FFF) + b'\xa5\x5a\xa5\x5a\xa5\x5a'))
    for _, v in pool:
        assert len(v) == isz
    return pool


def scalar_pool(dname):
    """List of (label, bytes) of full items of dtype `dname` (complex: pairs covering every special value in
    the real and in the imaginary slot)."""
    rp = real_pool(real_name(dname))
    if np.dtype(dname).kind != 'c':
        return rp
    m = len(rp)
    s = 5
    while np.gcd(s, m) != 1:
        s += 1
    return [(f'{rp[i][0]}|{rp[(s * i + 3) % m][0]}', rp[i][1] + rp[(s * i + 3) % m][1]) for i in range(m)]


def field_bytes(pool, n_items, k, off):
    """Raw bytes of the k-th field of a history: n_items pool entries, rotated with k and the seed offset."""
    m = len(pool)
    return b''.join(pool[(off + j + 5 * k) % m][1] for j in range(n_items))


# times: float64 bit patterns (the file stores float64 times)
TIME_POOL = [
    0.0,
    0.1,
    -0.0,
    1.5,
    5e-324,
    -2.5,
    1e300,
    1.5,  # repeated time: two records with equal times are two records
    float('inf'),
    struct.unpack('<d', struct.pack('<Q', 0x7FF80000DEADBEEF))[0],  # NaN with payload
    0.30000000000000004,
]


def dbits(x):
    return struct.pack('<d', x)


def time_bits(k, off):
    return dbits(TIME_POOL[(off + k) % len(TIME_POOL)])


# coordinates: variant 0 = ordinary non-uniform grids, variant 1 = special doubles (header must round trip on bits)
_COORDS = {
    0: [[0.0, 0.1, 0.7], [-1.0, 0.5, 2.25], [1e-3, 1.0, 1e3]],
    1: [
        [-0.0, 5e-324, float('inf')],
        [struct.unpack('<d', struct.pack('<Q', 0x7FF80000DEADBEEF))[0], float('-inf'), 1e-310],
        [1.7976931348623157e308, -0.0, struct.unpack('<d', struct.pack('<Q', 0xFFF8000000000000))[0]],
    ],
}


def coords_bits(grid, variant):
    """List (one per axis) of raw float64 bytes of the coordinates."""
    return [b''.join(dbits(x) for x in _COORDS[variant][ax][:n]) for ax, n in enumerate(grid)]


# ---------------------------------------------------------------------------------------------------------
# file model
# ---------------------------------------------------------------------------------------------------------


class FileModel:
    """header = (class name, dtype name, nVar, tuple of coordinate byte strings); records = [(tbits, fbits)]."""

    def __init__(self):
        self.exists = False
        self.header = None
        self.records = []

    def create(self, header, allow_overwrite):
        """Returns True iff the create may (and then must) replace the file."""
        if self.exists and not allow_overwrite:
            return False
        self.exists = True
        self.header = header
        self.records = []
        return True

    def append(self, tbits, fbits):
        assert self.exists
        self.records.append((tbits, fbits))

    def n(self):
        return len(self.records)


def index_valid(i, n):
    """python-list semantics promised by the docstring of formatIndex"""
    return -n <= i < n


def read_expectation(records, i):
    n = len(records)
    if not index_valid(i, n):
        return None
    return records[i % n]


# ---------------------------------------------------------------------------------------------------------
# block covers
# ---------------------------------------------------------------------------------------------------------


def cover_defects(grid, bounds):
    """`bounds` = list over ranks of (iLoc list, nLoc list). Returns None if every grid point lies in exactly one
    rank's box and every box lies inside the grid, else (what, detail)."""
    dim = len(grid)
    count = np.zeros(tuple(grid), dtype=np.int32)
    for r, (iLoc, nLoc) in enumerate(bounds):
        if len(iLoc) != dim or len(nLoc) != dim:
            return 'bounds_rank', {'rank': r, 'iLoc': list(iLoc), 'nLoc': list(nLoc)}
        for i, n, N in zip(iLoc, nLoc, grid):
            if int(i) != i or int(n) != n or i < 0 or n < 0 or i + n > N:
                return 'out_of_grid', {'rank': r, 'iLoc': [int(x) for x in iLoc], 'nLoc': [int(x) for x in nLoc]}
        count[tuple(slice(int(i), int(i) + int(n)) for i, n in zip(iLoc, nLoc))] += 1
    if (count == 1).all():
        return None
    if (count == 0).any():
        p = np.argwhere(count == 0)[0]
        return 'uncovered_point', {'point': [int(x) for x in p]}
    p = np.argwhere(count > 1)[0]
    return 'overlap', {'point': [int(x) for x in p], 'times': int(count[tuple(p)])}
