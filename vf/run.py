"""CLI:  python -m vf.run <ID> --tier quick|thorough     |     python -m vf.run <ID> --replay <file>

Each property module vf/props/<id>.py provides
    LEVEL                      evidence level ('model_checking' | 'exploration' | 'fault_enumeration')
    run(rep, tier)             explore; record violations / coverage on the Reporter
    replay(rep, case)          re-run exactly one recorded case (the 'replay' dict of a replay file)
"""

import argparse
import importlib
import json
import os
import sys
import traceback

from vf import common


def main(argv=None):
    ap = argparse.ArgumentParser()
    ap.add_argument('pid')
    ap.add_argument('--tier', default=os.environ.get('VERIF_TIER', 'quick'), choices=['quick', 'thorough'])
    ap.add_argument('--replay', default=None)
    args = ap.parse_args(argv)
    pid = args.pid.upper()

    common.silence_logging()
    common.assert_repo()
    mod = importlib.import_module(f'vf.props.{pid.lower()}')
    rep = common.Reporter(pid, args.tier, mod.LEVEL)

    if args.replay:
        with open(args.replay) as f:
            case = json.load(f)
        rep.known = []  # a replay always reports
        mod.replay(rep, case.get('replay', case))
        n = rep.n_violations()
        if n:
            for sig, detail, _ in rep.violations:
                print(f'VIOLATION property={pid} replay={args.replay}')
                print(f'  signature: {common.canon(sig)[:400]}')
                print(f'  detail: {common.canon(detail)[:1500]}')
            return 1
        print(f'{pid} replay: case no longer fails')
        return 0

    try:
        mod.run(rep, args.tier)
    except Exception:
        # an internal error of the machinery is not a verdict about the property: exit 2, no VIOLATION line
        traceback.print_exc()
        print(f'ERROR property={pid}: checker crashed (no verdict)')
        return 2
    return rep.finish()


if __name__ == '__main__':
    sys.exit(main())
