"""E1 — stateless choice-tree explorer (replay based, depth first, deviation bounded).

A *harness* is a picklable callable `run(ctx) -> Outcome` that executes the real code once; wherever the
environment would give an answer it calls `ctx.choose(n, label)`.  Choice 0 is the default answer.
`explore()` enumerates every choice sequence (optionally with at most `bound` non-default answers), farming
subtrees to a fork pool.  Replaying a prefix whose labels/arity differ from what was recorded is a hard error
(nondeterminism leaked into the driven code).
"""

import os
import sys
import time
import traceback

from vf import common


class ReplayDivergence(Exception):
    pass


class Ctx:
    __slots__ = ('prefix', 'pos', 'trace', 'expect')

    def __init__(self, prefix=(), expect=None):
        self.prefix = list(prefix)
        self.expect = expect  # optional list of (n, label) for the prefix positions
        self.pos = 0
        self.trace = []  # (n, label, choice)

    def choose(self, n, label='', cost=1):
        i = self.pos
        if i < len(self.prefix):
            c = self.prefix[i]
            if c >= n or c < 0:
                raise ReplayDivergence(f'choice {c} out of range {n} at point {i} ({label})')
            if self.expect is not None and i < len(self.expect):
                en, el = self.expect[i]
                if en != n or el != label:
                    raise ReplayDivergence(f'point {i}: expected ({en},{el}) got ({n},{label})')
        else:
            c = 0
        self.trace.append((n, label, c, cost))
        self.pos += 1
        return c

    def choices(self):
        return [t[2] for t in self.trace]


class Outcome:
    """What one execution produced.

    violations: list of (signature, detail)
    states: iterable of hashable canonical states (in order of occurrence)
    outcome: hashable summary of the final result (for counting distinct outcomes)
    """

    __slots__ = ('violations', 'states', 'outcome', 'extra')

    def __init__(self, violations=(), states=(), outcome=None, extra=None):
        self.violations = list(violations)
        self.states = list(states)
        self.outcome = outcome
        self.extra = extra


class Stats:
    def __init__(self):
        self.executions = 0
        self.states = set()
        self.edges = set()
        self.outcomes = set()
        self.max_depth = 0
        self.max_dev = 0
        self.violations = []  # (signature, detail, choices)
        self.samples = []
        self.capped = False
        self.extra = []

    def merge(self, o):
        self.executions += o.executions
        self.states |= o.states
        self.edges |= o.edges
        self.outcomes |= o.outcomes
        self.max_depth = max(self.max_depth, o.max_depth)
        self.max_dev = max(self.max_dev, o.max_dev)
        self.violations += o.violations
        self.capped = self.capped or o.capped
        if len(self.samples) < 3:
            self.samples += o.samples[: 3 - len(self.samples)]
        self.extra += o.extra


def _ndev(trace):
    return sum(t[3] for t in trace if t[2] != 0)


def _execute(harness, prefix, expect, stats, keep_extra):
    ctx = Ctx(prefix, expect)
    out = harness(ctx)
    ch = ctx.choices()
    if len(ch) < len(prefix):
        raise ReplayDivergence(f'execution consumed {len(ch)} choices, prefix has {len(prefix)}')
    stats.executions += 1
    stats.max_depth = max(stats.max_depth, len(ch))
    stats.max_dev = max(stats.max_dev, _ndev(ctx.trace))
    prev = None
    for s in out.states:
        h = hash(s)
        stats.states.add(h)
        if prev is not None:
            stats.edges.add(hash((prev, h)))
        prev = h
    stats.outcomes.add(hash(out.outcome))
    for sig, det in out.violations:
        stats.violations.append((sig, det, ch))
    if len(stats.samples) < 2:
        stats.samples.append({'choices': ch, 'labels': [t[1] for t in ctx.trace][:40], 'outcome': common.jsonable(out.outcome)})
    if keep_extra and out.extra is not None:
        stats.extra.append(out.extra)
    return ctx


def _children(ctx, start, bound):
    """Child prefixes of an execution: deviate at any point >= start."""
    ch = ctx.choices()
    res = []
    dev = _ndev(ctx.trace[:start])
    for i in range(start, len(ctx.trace)):
        n = ctx.trace[i][0]
        # all choices before i within this execution are: prefix part (counted in dev) and defaults (0)
        if bound is None or dev + ctx.trace[i][3] <= bound:
            for alt in range(1, n):
                res.append(ch[:i] + [alt])
        # position i itself is default (0) here since i >= start >= len(prefix)
    return res


def _dfs(harness, stack, bound, stats, deadline, keep_extra, max_exec):
    """Depth-first over `stack` (list of prefixes); returns the unexplored rest of the stack when a cap is hit."""
    n0 = stats.executions
    while stack:
        if deadline and time.time() > deadline:
            stats.capped = True
            return []
        if max_exec and stats.executions - n0 >= max_exec:
            return stack
        p = stack.pop()
        ctx = _execute(harness, p, None, stats, keep_extra)
        kids = _children(ctx, len(p), bound)
        stack.extend(reversed(kids))
    return []


_W = {}


def _worker(args):
    hi, prefixes, bound, deadline, keep_extra, max_exec = args
    st = Stats()
    rest = []
    try:
        rest = _dfs(_W['harnesses'][hi], list(reversed(prefixes)), bound, st, deadline, keep_extra, max_exec)
    except ReplayDivergence as e:
        st.violations.append(({'kind': 'nondeterminism', 'msg': str(e)}, {'prefixes': prefixes[:3]}, prefixes[0]))
    return hi, st, rest


def explore_many(harnesses, bound=None, time_cap=None, keep_extra=False, chunk=60, nproc=None):
    """Enumerate the whole choice tree of every harness (with at most `bound` weighted deviations if given; bound
    may be a list, one per harness).  Returns one Stats per harness.

    Work sharing: a worker explores depth first for at most `chunk` executions and hands the unexplored part of
    its stack back; the master re-distributes it.  Every prefix is executed exactly once.
    """
    import multiprocessing as mp

    common.silence_logging()
    deadline = time.time() + time_cap if time_cap else None
    nproc = nproc or common.NPROC
    totals = [Stats() for _ in harnesses]
    bounds = bound if isinstance(bound, list) else [bound] * len(harnesses)
    if os.environ.get('VERIF_SERIAL') or nproc <= 1:
        for i, h in enumerate(harnesses):
            rest = [[]]
            while rest:
                rest = _dfs(h, rest, bounds[i], totals[i], deadline, keep_extra, None)
        return totals
    _W['harnesses'] = harnesses
    ctx = mp.get_context('fork')
    with ctx.Pool(nproc, initializer=common._pool_init) as pool:
        pending = []
        queue = [(i, [[]]) for i in reversed(range(len(harnesses)))]

        def submit():
            while queue and len(pending) < 3 * nproc:
                hi, pref = queue.pop()
                pending.append(pool.apply_async(_worker, ((hi, pref, bounds[hi], deadline, keep_extra, chunk),)))

        submit()
        while pending:
            done = [r for r in pending if r.ready()]
            if not done:
                pending[0].wait(0.01)
                continue
            for r in done:
                pending.remove(r)
                hi, st, left = r.get()
                totals[hi].merge(st)
                # split the leftover stack into several tasks so that idle workers get something
                if left:
                    k = max(1, min(len(left), nproc if len(queue) < nproc else 2))
                    for i in range(k):
                        part = left[i::k]
                        if part:
                            queue.append((hi, list(reversed(part))))
            submit()
    return totals


def explore(harness, bound=None, **kw):
    return explore_many([harness], bound=bound, **kw)[0]


def run_once(harness, choices):
    """Replay one complete choice list (plain re-run without the explorer)."""
    ctx = Ctx(choices)
    out = harness(ctx)
    return out, ctx


def determinism_probe(harness, choices):
    """Replay a schedule twice; the observation (states + outcome) must be identical."""
    o1, c1 = run_once(harness, choices)
    o2, c2 = run_once(harness, choices)
    same = (o1.states == o2.states) and (o1.outcome == o2.outcome) and (c1.trace == c2.trace)
    return same


def evidence_from(stats, rep, prefix=''):
    """Accumulate explorer counters into rep.coverage (model_checking keys)."""
    cov = rep.coverage
    cov['states'] = cov.get('states', 0) + len(stats.states)
    cov['transitions'] = cov.get('transitions', 0) + len(stats.edges)
    cov['traces_validated_against_impl'] = cov.get('traces_validated_against_impl', 0) + stats.executions
    cov['executions'] = cov.get('executions', 0) + stats.executions
    cov['max_depth'] = max(cov.get('max_depth', 0), stats.max_depth)
    cov['max_deviations_seen'] = max(cov.get('max_deviations_seen', 0), stats.max_dev)
    if stats.capped:
        cov['caps_hit'] = cov.get('caps_hit', []) + [prefix or 'time']
    if len(cov.setdefault('samples', [])) < 4:
        cov['samples'] += stats.samples[:1]
