"""E4 — write-history recorder and crash-state generator.  Generic: knows nothing about pySDC or file formats.

A *write history* is a sequence of operations on one file; the recorder takes a snapshot of the file's bytes
after every operation, so that (a) "this operation only extended the file" is an assertion on recorded data and
(b) the bytes an operation added are known exactly without assuming any layout.  A *crash state* of an
operation that extended the file from `before` to `after` is `before + (after - before)[:k]`, for every
0 <= k <= len(after) - len(before)  (k = 0: nothing of the write reached the disk, k = full: the control case
of a completed write); optionally padded with zeros up to the full length (a filesystem that had allocated the
blocks but not yet written the data).
"""

import os
import shutil
import tempfile


def scratch_base(name):
    """Directory for scratch files: tmpfs if available (the files are tiny, the number of opens is large)."""
    for base in ('/dev/shm', '/tmp'):
        if os.path.isdir(base) and os.access(base, os.W_OK):
            d = os.path.join(base, name)
            os.makedirs(d, exist_ok=True)
            return d
    raise RuntimeError('no scratch directory')


class Scratch:
    """Context manager: a private temporary directory, unique per use (and therefore per worker process)."""

    def __init__(self, name):
        self.name = name
        self.dir = None

    def __enter__(self):
        for attempt in range(5):
            try:
                self.dir = tempfile.mkdtemp(prefix=f'{os.getpid()}_', dir=scratch_base(self.name))
                return self.dir
            except FileNotFoundError:  # a concurrent run removed the (empty) base directory just now
                if attempt == 4:
                    raise

    def __exit__(self, *exc):
        shutil.rmtree(self.dir, ignore_errors=True)
        return False


def remove_base_if_empty(name):
    """Called once at the end of a run; a base directory still used by a concurrent run is left alone."""
    for base in ('/dev/shm', '/tmp'):
        try:
            os.rmdir(os.path.join(base, name))
        except OSError:
            pass


def snapshot(path):
    """Bytes of the file, or None if it does not exist."""
    try:
        with open(path, 'rb') as f:
            return f.read()
    except FileNotFoundError:
        return None


def materialise(path, data):
    """Put the file into exactly this state (None = absent)."""
    if data is None:
        if os.path.exists(path):
            os.unlink(path)
        return
    with open(path, 'wb') as f:
        f.write(data)


class WriteHistory:
    """Runs operations on one file and records (label, bytes before, bytes after, outcome)."""

    def __init__(self, path):
        self.path = path
        self.steps = []
        self.last = snapshot(path)

    def do(self, label, func):
        before = self.last
        try:
            out = ('ok', func())
        except Exception as e:  # noqa: BLE001  (the outcome is data for the oracle)
            out = ('raised', e)
        after = snapshot(self.path)
        self.steps.append((label, before, after, out[0]))
        self.last = after
        return out, before, after


def extension(before, after):
    """If `after` extends `before` (prefix preserved) return the added bytes, else None."""
    b = before or b''
    if after is None or len(after) < len(b) or after[: len(b)] != b:
        return None
    return after[len(b) :]


def crash_states(before, delta, zero_fill=False, ks=None):
    """Yield (k, content) for the crash points of a write that appended `delta` behind `before`."""
    b = before or b''
    full = len(delta)
    for k in range(full + 1) if ks is None else ks:
        content = b + delta[:k]
        if zero_fill:
            content += b'\0' * (full - k)
        yield k, content
