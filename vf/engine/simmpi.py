"""E3 — simulated mpi4py under a controlled scheduler.

`install()` puts a fake `mpi4py` / `mpi4py.MPI` into sys.modules (must happen before pySDC modules that import mpi4py
are imported).  `Sim(n, ctx, ...)` runs n rank functions as Python threads of which exactly one runs at any time
(baton passing with per-thread semaphores).  Every MPI call is a scheduling point: the explorer context `ctx` decides
which enabled rank continues (choice 0 = the running rank if it is still enabled, else the lowest enabled rank; any other
choice is one deviation).  "No enabled rank and not all finished" is a deadlock.

Modelled semantics: non-overtaking matching per (communicator, source, dest, tag); Issend/Ssend complete when matched;
standard-mode Send/Isend (and pickled send/isend) complete at post (eager=True, data buffered at post) or at match
(eager=False, data read from the user buffer at match time); collectives either synchronise all members
(early_collectives=False) or let members that need no data return early (Bcast/bcast root, Reduce non-root);
Wait/Recv/collectives block.  At completion of a non-eager send the buffer content is compared with the snapshot taken
at post ("buffer modified before the send completed").

Not modelled: wildcard receives, MPI file I/O, Ibcast (only used by the interrupt-based iteration estimator, which the
property excludes), NCCL/GPU communicators.
"""

import pickle
import sys
import threading
import types

import numpy as np


class SimAbort(BaseException):
    """Raised inside rank threads to unwind them when an execution is abandoned."""


_tls = threading.local()


# ---- constants of the fake module -----------------------------------------------------------------------------
class Op:
    def __init__(self, name, fn):
        self.name = name
        self.fn = fn

    def __repr__(self):
        return f'MPI.{self.name}'


MAX = Op('MAX', lambda a, b: np.maximum(a, b))
MIN = Op('MIN', lambda a, b: np.minimum(a, b))
SUM = Op('SUM', lambda a, b: a + b)
LAND = Op('LAND', lambda a, b: np.logical_and(a, b))
LOR = Op('LOR', lambda a, b: np.logical_or(a, b))


class Datatype:
    def __init__(self, name):
        self.name = name

    def __repr__(self):
        return f'MPI.{self.name}'


BOOL = Datatype('BOOL')
INT = Datatype('INT')
DOUBLE = Datatype('DOUBLE')
FLOAT = Datatype('FLOAT')
COMPLEX = Datatype('COMPLEX')
DOUBLE_COMPLEX = Datatype('DOUBLE_COMPLEX')
C_DOUBLE_COMPLEX = Datatype('C_DOUBLE_COMPLEX')
LONG = Datatype('LONG')
CHAR = Datatype('CHAR')
BYTE = Datatype('BYTE')
UNDEFINED = -32766
ANY_SOURCE = -2
ANY_TAG = -1


class _Null:
    def __repr__(self):
        return 'MPI.REQUEST_NULL'


REQUEST_NULL = _Null()


def _buf(spec):
    """mpi4py buffer specs: ndarray | [ndarray, datatype] | (ndarray, datatype) | [ndarray, count, datatype]."""
    if isinstance(spec, (list, tuple)) and len(spec) >= 1 and isinstance(spec[0], np.ndarray):
        return spec[0]
    if isinstance(spec, np.ndarray):
        return spec
    if spec is None:
        return None
    raise TypeError(f'unsupported buffer spec {type(spec)}')


class Msg:
    __slots__ = ('kind', 'cid', 'src', 'dst', 'tag', 'buf', 'obj', 'sync', 'eager', 'pickled', 'complete', 'matched', 'cancelled', 'snapshot', 'data', 'seq', 'waited', 'label')

    def __init__(self, **kw):
        for k in self.__slots__:
            setattr(self, k, kw.get(k))
        self.complete = self.complete or False
        self.matched = False
        self.cancelled = False
        self.waited = False


class Request:
    def __init__(self, sim, msg):
        self.sim = sim
        self.msg = msg

    def Wait(self, status=None):
        m = self.msg
        self.sim.point(f'Wait[{m.kind} t{m.tag}]')
        if not (m.complete or m.cancelled):
            self.sim.point(f'Wait[{m.kind} t{m.tag}].block', cond=lambda: m.complete or m.cancelled)
        m.waited = True
        return True

    def wait(self, status=None):
        self.Wait()
        return self.msg.obj if self.msg.kind == 'recv' else None

    def Test(self, status=None):
        self.sim.point(f'Test[{self.msg.kind} t{self.msg.tag}]')
        if self.msg.complete:
            self.msg.waited = True
        return bool(self.msg.complete)

    def test(self, status=None):
        ok = self.Test()
        return ok, (self.msg.obj if ok and self.msg.kind == 'recv' else None)

    def Cancel(self):
        m = self.msg
        if not m.complete:
            m.cancelled = True
            self.sim.unqueue(m)

    def Free(self):
        pass


class Comm:
    """Intracommunicator as seen by one rank."""

    def __init__(self, sim, cid, members, world_rank):
        self.sim = sim
        self.cid = cid
        self.members = list(members)  # world ranks, in rank order of this communicator
        self.world_rank = world_rank
        self._rank = self.members.index(world_rank)

    # -- identity
    @property
    def rank(self):
        return self._rank

    @property
    def size(self):
        return len(self.members)

    def Get_rank(self):
        return self._rank

    def Get_size(self):
        return len(self.members)

    def __repr__(self):
        return f'<SimComm {self.cid} rank {self._rank}/{self.size}>'

    def _w(self, r):
        if r is None or not (0 <= r < len(self.members)):
            self.sim.violation('invalid_rank', comm=self.cid, rank=r, size=len(self.members), by=self.world_rank)
            self.sim.abort_now('invalid rank')
        return self.members[r]

    # -- point to point, buffers
    def _send(self, spec, dest, tag, sync, blocking, label):
        buf = _buf(spec)
        self.sim.point(f'{label}[->{dest} t{tag}]')
        m = self.sim.post_send(self, buf, None, self._w(dest), tag, sync, False, label)
        req = Request(self.sim, m)
        if blocking:
            if not m.complete:
                self.sim.point(f'{label}.block', cond=lambda: m.complete)
            m.waited = True
            return None
        return req

    def Send(self, buf, dest, tag=0):
        return self._send(buf, dest, tag, False, True, 'Send')

    def Ssend(self, buf, dest, tag=0):
        return self._send(buf, dest, tag, True, True, 'Ssend')

    def Isend(self, buf, dest, tag=0):
        return self._send(buf, dest, tag, False, False, 'Isend')

    def Issend(self, buf, dest, tag=0):
        return self._send(buf, dest, tag, True, False, 'Issend')

    def Irecv(self, buf, source=0, tag=0):
        b = _buf(buf)
        self.sim.point(f'Irecv[<-{source} t{tag}]')
        m = self.sim.post_recv(self, b, self._w(source), tag, False, 'Irecv')
        return Request(self.sim, m)

    def Recv(self, buf, source=0, tag=0, status=None):
        b = _buf(buf)
        self.sim.point(f'Recv[<-{source} t{tag}]')
        m = self.sim.post_recv(self, b, self._w(source), tag, False, 'Recv')
        if not m.complete:
            self.sim.point('Recv.block', cond=lambda: m.complete)
        m.waited = True
        return None

    # -- point to point, pickled
    def send(self, obj, dest, tag=0):
        self.sim.point(f'send[->{dest} t{tag}]')
        m = self.sim.post_send(self, None, obj, self._w(dest), tag, False, True, 'send')
        if not m.complete:
            self.sim.point('send.block', cond=lambda: m.complete)
        m.waited = True

    def isend(self, obj, dest, tag=0):
        self.sim.point(f'isend[->{dest} t{tag}]')
        return Request(self.sim, self.sim.post_send(self, None, obj, self._w(dest), tag, False, True, 'isend'))

    def issend(self, obj, dest, tag=0):
        self.sim.point(f'issend[->{dest} t{tag}]')
        return Request(self.sim, self.sim.post_send(self, None, obj, self._w(dest), tag, True, True, 'issend'))

    def recv(self, buf=None, source=0, tag=0, status=None):
        self.sim.point(f'recv[<-{source} t{tag}]')
        m = self.sim.post_recv(self, None, self._w(source), tag, True, 'recv')
        if not m.complete:
            self.sim.point('recv.block', cond=lambda: m.complete)
        m.waited = True
        return m.obj

    def irecv(self, buf=None, source=0, tag=0):
        self.sim.point(f'irecv[<-{source} t{tag}]')
        return Request(self.sim, self.sim.post_recv(self, None, self._w(source), tag, True, 'irecv'))

    # -- collectives
    def Barrier(self):
        self.sim.collective(self, 'Barrier', None, None)

    barrier = Barrier

    def Bcast(self, buf, root=0):
        b = _buf(buf)
        res = self.sim.collective(self, 'Bcast', np.array(b, copy=True) if self._rank == root else None, root)
        if self._rank != root:
            b[...] = res[root]

    def bcast(self, obj=None, root=0):
        res = self.sim.collective(self, 'bcast', pickle.dumps(obj) if self._rank == root else None, root)
        return pickle.loads(res[root])

    def Reduce(self, sendbuf, recvbuf, op=SUM, root=0):
        s = _buf(sendbuf)
        res = self.sim.collective(self, 'Reduce', (np.array(s, copy=True), op.name), root)
        if self._rank == root:
            out = _buf(recvbuf)
            out[...] = self.sim.fold(res, op)

    def Allreduce(self, sendbuf, recvbuf, op=SUM):
        s = _buf(sendbuf)
        res = self.sim.collective(self, 'Allreduce', (np.array(s, copy=True), op.name), None)
        out = _buf(recvbuf)
        out[...] = self.sim.fold(res, op)

    def allreduce(self, sendobj, op=SUM):
        res = self.sim.collective(self, 'allreduce', (sendobj, op.name), None)
        val = self.sim.fold(res, op)
        if isinstance(sendobj, (bool, np.bool_)) or op in (LAND, LOR):
            return bool(val)
        if isinstance(sendobj, (int, float, complex)):
            return type(sendobj)(val)
        return val

    def reduce(self, sendobj, op=SUM, root=0):
        res = self.sim.collective(self, 'reduce', (sendobj, op.name), root)
        if self._rank == root:
            return self.sim.fold(res, op)
        return None

    def allgather(self, sendobj):
        res = self.sim.collective(self, 'allgather', pickle.dumps(sendobj), None)
        return [pickle.loads(res[r]) for r in range(self.size)]

    def gather(self, sendobj, root=0):
        res = self.sim.collective(self, 'gather', pickle.dumps(sendobj), root)
        if self._rank == root:
            return [pickle.loads(res[r]) for r in range(self.size)]
        return None

    def Allgather(self, sendbuf, recvbuf):
        s = _buf(sendbuf)
        res = self.sim.collective(self, 'Allgather', np.array(s, copy=True), None)
        out = _buf(recvbuf)
        out[...] = np.array([res[r] for r in range(self.size)]).reshape(out.shape)

    def Ibcast(self, buf, root=0):
        raise NotImplementedError('Ibcast is not simulated (only used by the interrupt-based iteration estimator)')

    def Split(self, color=0, key=0):
        res = self.sim.collective(self, 'Split', (color, key, self.world_rank), None)
        mine = [(res[r][1], r, res[r][2]) for r in range(self.size) if res[r][0] == color]
        mine.sort()
        members = [w for (_, _, w) in mine]
        cid = self.sim.split_cid(self, color)
        return Comm(self.sim, cid, members, self.world_rank)

    def Dup(self):
        res = self.sim.collective(self, 'Dup', None, None)  # noqa: F841
        return Comm(self.sim, self.sim.split_cid(self, 'dup'), self.members, self.world_rank)

    def Free(self):
        pass


class _WorldProxy:
    """MPI.COMM_WORLD: resolves to the calling rank's world communicator."""

    def __getattr__(self, name):
        sim = getattr(_tls, 'sim', None)
        if sim is None:
            raise RuntimeError('MPI.COMM_WORLD used outside a simulated rank')
        return getattr(sim.world[_tls.rank], name)


class Sim:
    def __init__(self, n, ctx, eager=False, early_collectives=False, max_points=100000):
        self.n = n
        self.ctx = ctx
        self.eager = eager
        self.early = early_collectives
        self.max_points = max_points
        self.sems = [threading.Semaphore(0) for _ in range(n)]
        self.done = [False] * n
        self.cond = [None] * n
        self.current = None
        self.abort = False
        self.abort_reason = None
        self.npoints = 0
        self.calls = [0] * n
        self.results = [None] * n
        self.errors = [None] * n
        self.sends = []
        self.recvs = []
        self.all_msgs = []
        self.colls = {}
        self.coll_idx = {}
        self.cids = {}
        self.next_cid = 1
        self.viol = []
        self.states = []
        self.counts = {'p2p_posted': 0, 'matched': 0, 'collectives': 0, 'switches': 0}
        self.world = [Comm(self, 0, list(range(n)), r) for r in range(n)]
        self.seq = 0

    # ---- violations observed by the simulator itself
    def violation(self, kind, **detail):
        self.viol.append((kind, detail))

    # ---- running
    def run(self, fn):
        threads = []

        def body(r):
            self.sems[r].acquire()
            _tls.sim = self
            _tls.rank = r
            try:
                if not self.abort:
                    self.results[r] = fn(r, self.world[r])
            except SimAbort:
                pass
            except BaseException as e:  # noqa
                self.errors[r] = e
                if not self.abort:
                    self.abort_reason = f'exception on rank {r}: {type(e).__name__}'
                    self.abort = True
            finally:
                self.done[r] = True
                self.cond[r] = None
                self._after_finish(r)

        for r in range(self.n):
            t = threading.Thread(target=body, args=(r,), daemon=True)
            threads.append(t)
            t.start()
        self.current = 0
        self.sems[0].release()
        for t in threads:
            t.join(120)
            if t.is_alive():
                self.abort = True
                self.abort_reason = 'thread did not finish (simulator error)'
                for s in self.sems:
                    s.release()
        return self

    def enabled(self):
        out = []
        for i in range(self.n):
            if self.done[i]:
                continue
            c = self.cond[i]
            if c is None or c():
                out.append(i)
        return out

    def _release_all(self):
        for i in range(self.n):
            if not self.done[i]:
                self.sems[i].release()

    def abort_now(self, reason):
        if not self.abort:
            self.abort = True
            self.abort_reason = reason
        raise SimAbort()

    def _after_finish(self, r):
        if self.abort:
            self._release_all()
            return
        if all(self.done):
            return
        en = self.enabled()
        if not en:
            self.abort = True
            self.abort_reason = 'deadlock'
            self.violation('deadlock', blocked=[i for i in range(self.n) if not self.done[i]], after_finish_of=r)
            self._release_all()
            return
        c = self.ctx.choose(len(en), f'r{r}.finish', 1) if len(en) > 1 else 0
        nxt = en[c]
        self.current = nxt
        self.sems[nxt].release()

    def point(self, label, cond=None):
        r = _tls.rank
        if self.abort:
            raise SimAbort()
        self.npoints += 1
        if cond is None:
            self.calls[r] += 1
        if self.npoints > self.max_points:
            self.violation('horizon', points=self.npoints)
            self.abort = True
            self.abort_reason = 'horizon'
            self._release_all()
            raise SimAbort()
        self.cond[r] = cond
        en = self.enabled()
        if not en:
            self.abort = True
            self.abort_reason = 'deadlock'
            self.violation('deadlock', blocked={i: True for i in range(self.n) if not self.done[i]}, at=label, rank=r)
            self._release_all()
            raise SimAbort()
        order = ([r] if r in en else []) + [i for i in en if i != r]
        c = self.ctx.choose(len(order), f'r{r}.{label}', 1) if len(order) > 1 else 0
        nxt = order[c]
        self.states.append((tuple(self.calls), tuple(self.cond[i] is not None for i in range(self.n)), nxt))
        if nxt != r:
            self.counts['switches'] += 1
            self.current = nxt
            self.sems[nxt].release()
            self.sems[r].acquire()
            if self.abort:
                raise SimAbort()
        self.cond[r] = None

    # ---- point to point
    def unqueue(self, m):
        for q in (self.sends, self.recvs):
            if m in q:
                q.remove(m)

    def post_send(self, comm, buf, obj, dst_world, tag, sync, pickled, label):
        self.seq += 1
        eager = (not sync) and self.eager
        m = Msg(kind='send', cid=comm.cid, src=comm.world_rank, dst=dst_world, tag=tag, buf=buf, obj=obj, sync=sync, eager=eager, pickled=pickled, seq=self.seq, label=label)
        m.snapshot = pickle.dumps(obj) if pickled else np.array(buf, copy=True)
        if eager:
            m.data = m.snapshot
            m.complete = True  # the send request is complete; delivery happens at match
        self.counts['p2p_posted'] += 1
        self.all_msgs.append(m)
        for r in self.recvs:
            if r.cid == m.cid and r.src == m.src and r.dst == m.dst and r.tag == m.tag:
                self.recvs.remove(r)
                self._match(m, r)
                return m
        self.sends.append(m)
        return m

    def post_recv(self, comm, buf, src_world, tag, pickled, label):
        self.seq += 1
        r = Msg(kind='recv', cid=comm.cid, src=src_world, dst=comm.world_rank, tag=tag, buf=buf, pickled=pickled, seq=self.seq, label=label)
        self.counts['p2p_posted'] += 1
        self.all_msgs.append(r)
        for m in self.sends:
            if r.cid == m.cid and r.src == m.src and r.dst == m.dst and r.tag == m.tag:
                self.sends.remove(m)
                self._match(m, r)
                return r
        self.recvs.append(r)
        return r

    def _match(self, s, r):
        if s.pickled != r.pickled:
            self.violation('send_recv_kind_mismatch', src=s.src, dst=s.dst, tag=s.tag, send=s.label, recv=r.label)
            self.abort_now('pickled/buffer mismatch')
        if s.pickled:
            if not s.eager and pickle.dumps(s.obj) != s.snapshot:
                self.violation('send_buffer_modified', src=s.src, dst=s.dst, tag=s.tag, call=s.label)
            r.obj = pickle.loads(s.snapshot if s.eager else pickle.dumps(s.obj))
        else:
            if s.eager:
                data = s.data
            else:
                data = np.array(s.buf, copy=True)
                if data.tobytes() != s.snapshot.tobytes():
                    self.violation('send_buffer_modified', src=s.src, dst=s.dst, tag=s.tag, call=s.label)
            if r.buf.size != data.size:
                self.violation('message_truncated', src=s.src, dst=s.dst, tag=s.tag, send_size=int(data.size), recv_size=int(r.buf.size))
                self.abort_now('message size mismatch')
            r.buf[...] = data.reshape(r.buf.shape)
        s.matched = r.matched = True
        s.complete = r.complete = True
        self.counts['matched'] += 1

    # ---- collectives
    def collective(self, comm, kind, contrib, root):
        self.point(f'{kind}')
        key = (comm.cid, comm.world_rank)
        idx = self.coll_idx.get(key, 0)
        self.coll_idx[key] = idx + 1
        inst = self.colls.setdefault((comm.cid, idx), {'kind': kind, 'root': root, 'contrib': {}, 'size': comm.size})
        if inst['kind'] != kind or inst['root'] != root:
            self.violation('collective_mismatch', comm=comm.cid, index=idx, first=(inst['kind'], inst['root']), other=(kind, root), rank=comm.rank)
            self.abort_now('collective mismatch')
        inst['contrib'][comm.rank] = contrib
        self.counts['collectives'] += 1
        size = comm.size

        def all_in():
            return len(inst['contrib']) == size

        need = all_in
        if self.early and root is not None:
            if kind in ('Bcast', 'bcast'):
                need = (lambda: True) if comm.rank == root else (lambda: root in inst['contrib'])
            elif kind in ('Reduce', 'reduce', 'gather'):
                need = all_in if comm.rank == root else (lambda: True)
        if not need():
            self.point(f'{kind}.block', cond=need)
        return inst['contrib']

    def fold(self, contrib, op):
        vals = [contrib[r][0] for r in sorted(contrib)]
        for r in contrib:
            if contrib[r][1] != op.name:
                self.violation('collective_op_mismatch', ops=sorted({contrib[q][1] for q in contrib}))
        acc = vals[0]
        for v in vals[1:]:
            acc = op.fn(acc, v)
        return acc

    def split_cid(self, comm, color):
        key = (comm.cid, self.coll_idx[(comm.cid, comm.world_rank)] - 1, color if not isinstance(color, np.bool_) else bool(color))
        if key not in self.cids:
            self.cids[key] = self.next_cid
            self.next_cid += 1
        return self.cids[key]

    # ---- end-of-run checks
    def final_checks(self):
        if self.abort:
            return
        for m in self.all_msgs:
            if m.cancelled:
                continue
            if m.kind == 'recv' and not m.matched:
                self.violation('receive_never_matched', src=m.src, dst=m.dst, tag=m.tag, call=m.label)
        unmatched_sends = [m for m in self.all_msgs if m.kind == 'send' and not m.matched and not m.cancelled]
        self.unmatched_sends = len(unmatched_sends)
        self.unwaited = sum(1 for m in self.all_msgs if not m.waited and not m.cancelled)
        for key, inst in self.colls.items():
            if len(inst['contrib']) != inst['size']:
                self.violation('collective_incomplete', comm=key[0], index=key[1], kind=inst['kind'], arrived=sorted(inst['contrib']))


_installed = False


def install():
    """Install the fake mpi4py (idempotent). Must run before pySDC modules import mpi4py."""
    global _installed
    if _installed:
        return sys.modules['mpi4py'].MPI
    for name in list(sys.modules):
        if name == 'mpi4py' or name.startswith('mpi4py.'):
            raise RuntimeError('a real mpi4py is already imported')
    pkg = types.ModuleType('mpi4py')
    mpi = types.ModuleType('mpi4py.MPI')
    for k, v in dict(
        Intracomm=Comm,
        Comm=Comm,
        Request=Request,
        COMM_WORLD=_WorldProxy(),
        COMM_SELF=None,
        MAX=MAX,
        MIN=MIN,
        SUM=SUM,
        LAND=LAND,
        LOR=LOR,
        BOOL=BOOL,
        INT=INT,
        DOUBLE=DOUBLE,
        FLOAT=FLOAT,
        COMPLEX=COMPLEX,
        DOUBLE_COMPLEX=DOUBLE_COMPLEX,
        C_DOUBLE_COMPLEX=C_DOUBLE_COMPLEX,
        LONG=LONG,
        CHAR=CHAR,
        BYTE=BYTE,
        UNDEFINED=UNDEFINED,
        ANY_SOURCE=ANY_SOURCE,
        ANY_TAG=ANY_TAG,
        REQUEST_NULL=REQUEST_NULL,
        Op=Op,
        Datatype=Datatype,
    ).items():
        setattr(mpi, k, v)
    mpi.__is_simulated__ = True
    pkg.MPI = mpi
    pkg.__is_simulated__ = True
    sys.modules['mpi4py'] = pkg
    sys.modules['mpi4py.MPI'] = mpi
    _installed = True
    return mpi
