"""Shared plumbing: reporter (evidence + violations + known findings), pools, seeds.

Nothing in here imports pySDC at module import time except `assert_repo()`.
"""

import hashlib
import json
import math
import multiprocessing as mp
import os
import random
import subprocess
import sys
import time

ROOT = os.path.dirname(os.path.dirname(os.path.abspath(__file__)))
EVIDENCE_DIR = os.environ.get('VERIF_EVIDENCE_DIR') or os.path.join(ROOT, 'evidence')
REPLAY_DIR = os.environ.get('VERIF_REPLAY_DIR') or os.path.join(ROOT, 'replays')
KNOWN_FILE = os.path.join(ROOT, 'known_findings.json')
REPO = os.path.realpath(os.environ.get('VERIF_REPO') or '/repo')
MAX_REPLAY_FILES = 40
NPROC = int(os.environ.get('VERIF_NPROC', '16'))


def seed():
    try:
        return int(os.environ.get('VERIF_SEED', '0'))
    except ValueError:
        return 0


def rng(extra=''):
    """Deterministic RNG for ordering / choosing generic data. Never changes the explored space."""
    return random.Random(f'{seed()}:{extra}')


def assert_repo():
    """Every check must exercise the working tree in /repo."""
    import pySDC

    path = os.path.realpath(pySDC.__file__)
    assert path.startswith(REPO + '/'), f'pySDC imported from {path}, expected under {REPO}'
    return path


def repo_head():
    try:
        return subprocess.run(
            ['git', '-C', REPO, 'rev-parse', '--short', 'HEAD'], capture_output=True, text=True, timeout=20
        ).stdout.strip()
    except Exception:
        return 'unknown'


def silence_logging():
    import logging
    import warnings

    logging.disable(logging.CRITICAL)
    warnings.filterwarnings('ignore')


def jsonable(x):
    """Convert numpy / complex / tuples to plain JSON."""
    import numpy as np

    if isinstance(x, dict):
        return {str(k): jsonable(v) for k, v in x.items()}
    if isinstance(x, (list, tuple, set, frozenset)):
        return [jsonable(v) for v in x]
    if isinstance(x, (np.bool_,)):
        return bool(x)
    if isinstance(x, (np.integer,)):
        return int(x)
    if isinstance(x, (np.floating,)):
        x = float(x)
    if isinstance(x, float):
        if math.isnan(x) or math.isinf(x):
            return repr(x)
        return x
    if isinstance(x, (complex, np.complexfloating)):
        return {'re': jsonable(float(x.real)), 'im': jsonable(float(x.imag))}
    if isinstance(x, np.ndarray):
        return jsonable(x.tolist())
    if isinstance(x, bytes):
        return x.hex()
    if isinstance(x, (str, int, bool)) or x is None:
        return x
    if isinstance(x, type):
        return x.__name__
    return repr(x)


def canon(x):
    return json.dumps(jsonable(x), sort_keys=True, separators=(',', ':'))


def short_hash(x):
    return hashlib.sha1(canon(x).encode()).hexdigest()[:12]


def load_known():
    if not os.path.exists(KNOWN_FILE):
        return []
    with open(KNOWN_FILE) as f:
        return json.load(f).get('findings', [])


class Reporter:
    """Collects coverage, violations; writes evidence; decides the exit code.

    A violation carries a *signature* (dict naming the failing input / history / call site precisely)
    and a *detail* dict (expected vs observed, replay information).  A signature listed in
    known_findings.json with status "known" is reported as KNOWN-FINDING and does not fail the run.
    """

    def __init__(self, pid, tier, level):
        self.pid = pid
        self.tier = tier
        self.level = level
        self.t0 = time.time()
        self.coverage = {}
        self.assumptions = []
        self.violations = []  # list of (signature, detail)
        self._seen_sig = set()
        # VERIF_IGNORE_KNOWN=1 (maintenance only, never in registered commands): report known findings as violations, e.g.
        # to regenerate their replay files under known_replays/
        self.known = [] if os.environ.get('VERIF_IGNORE_KNOWN') else [k for k in load_known() if k.get('property') == pid]
        self.known_hits = []
        self.notes = []

    # ---- violations ------------------------------------------------------------------
    def violation(self, signature, detail=None, replay=None):
        """Record one violation. `replay` is the dict stored in the replay file (must allow re-running
        exactly this case via `./check <ID> --replay <file>`)."""
        sig = jsonable(signature)
        key = canon(sig)
        if key in self._seen_sig:
            return
        self._seen_sig.add(key)
        for k in self.known:
            if k.get('status') == 'known' and canon(k.get('signature')) == key:
                self.known_hits.append(k)
                return
        self.violations.append((sig, jsonable(detail or {}), jsonable(replay if replay is not None else sig)))

    def n_violations(self):
        return len(self.violations)

    # ---- finishing -------------------------------------------------------------------
    def finish(self):
        os.makedirs(EVIDENCE_DIR, exist_ok=True)
        wall = time.time() - self.t0
        cov = dict(self.coverage)
        cov.setdefault('samples', [])
        cov['known_findings_hit'] = [k.get('what') for k in self.known_hits]
        if self.notes:
            cov['notes'] = self.notes
        ev = {
            'property_id': self.pid,
            'tier': self.tier,
            'seed': seed(),
            'level': self.level,
            'coverage': jsonable(cov),
            'assumptions': self.assumptions,
            'wall_s': round(wall, 3),
            'violations': len(self.violations),
            'repo_head': repo_head(),
        }
        path = os.path.join(EVIDENCE_DIR, f'{self.pid}.json')
        tmp = path + '.tmp'
        with open(tmp, 'w') as f:
            json.dump(ev, f, indent=1, sort_keys=True)
            f.write('\n')
        os.replace(tmp, path)

        for k in self.known_hits:
            print(f"KNOWN-FINDING: property={self.pid} {k.get('what')}")
        # known findings that did not show up any more are reported (informational)
        hit = {canon(k.get('signature')) for k in self.known_hits}
        for k in self.known:
            if k.get('status') == 'known' and canon(k.get('signature')) not in hit and k.get('tiers', [self.tier]).count(self.tier):
                print(f"note: known finding not reproduced in this run: {k.get('what')}")

        if self.violations:
            # fewest-deviation / shortest first: callers add in that order; we sort by replay size as tie-break
            vdir = os.path.join(REPLAY_DIR, self.pid)
            if os.path.isdir(vdir):
                for fn in os.listdir(vdir):
                    os.unlink(os.path.join(vdir, fn))
            os.makedirs(vdir, exist_ok=True)
            shown = 0
            for sig, detail, replay in self.violations[:MAX_REPLAY_FILES]:
                rp = os.path.join(vdir, short_hash(sig) + '.json')
                with open(rp, 'w') as f:
                    json.dump(
                        {'property': self.pid, 'signature': sig, 'detail': detail, 'replay': replay, 'repo_head': repo_head()},
                        f,
                        indent=1,
                        sort_keys=True,
                    )
                    f.write('\n')
                if shown < 20:
                    print(f'VIOLATION property={self.pid} replay={rp}')
                    print(f'  signature: {canon(sig)[:400]}')
                    print(f'  detail: {canon(detail)[:600]}')
                shown += 1
            if len(self.violations) > 20:
                print(f'... {len(self.violations)} violations in total; the first {min(len(self.violations), MAX_REPLAY_FILES)} written to {vdir}')
            print(f'{self.pid} {self.tier}: {len(self.violations)} violation(s), wall {wall:.1f}s')
            return 1
        print(f'{self.pid} {self.tier}: OK  {summary_line(cov)} wall {wall:.1f}s')
        return 0


def summary_line(cov):
    keys = ['evaluations', 'distinct_nontrivial', 'states', 'transitions', 'traces_validated_against_impl', 'exhaustive']
    return ' '.join(f'{k}={cov[k]}' for k in keys if k in cov)


# ---- process pool ---------------------------------------------------------------------
_POOL_FUNC = None


def _pool_init():
    silence_logging()


def _call(args):
    f, a = args
    return f(a)


def pmap(func, items, chunksize=1, nproc=None):
    """Ordered parallel map over a fork pool (workers inherit imported modules)."""
    items = list(items)
    nproc = nproc or NPROC
    if len(items) <= 1 or nproc <= 1 or os.environ.get('VERIF_SERIAL'):
        return [func(a) for a in items]
    ctx = mp.get_context('fork')
    with ctx.Pool(min(nproc, len(items)), initializer=_pool_init) as pool:
        return pool.map(func, items, chunksize=chunksize)


def pimap_unordered(func, items, chunksize=1, nproc=None):
    items = list(items)
    nproc = nproc or NPROC
    if len(items) <= 1 or nproc <= 1 or os.environ.get('VERIF_SERIAL'):
        for a in items:
            yield func(a)
        return
    ctx = mp.get_context('fork')
    with ctx.Pool(min(nproc, len(items)), initializer=_pool_init) as pool:
        for r in pool.imap_unordered(func, items, chunksize=chunksize):
            yield r


class Budget:
    """Wall-clock cap for enumerations that may be cut short; the evidence says so when it is."""

    def __init__(self, seconds):
        self.t_end = time.time() + seconds
        self.hit = False

    def over(self):
        if time.time() > self.t_end:
            self.hit = True
        return self.hit


def ulp(x):
    import numpy as np

    return float(np.spacing(abs(float(x)))) if x != 0 else 5e-324
