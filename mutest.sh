#!/bin/bash
# usage: mutest.sh <patch.diff> <ID> [tier]   — applies the patch in a scratch worktree of /repo (never /repo itself),
# runs ./check <ID> against it with evidence/replays redirected to the scratch dir, removes the worktree.
set -u
patch=$(realpath "$1"); id=$2; tier=${3:-quick}
wt=$(mktemp -d /tmp/mut.XXXXXX)
git -C /repo worktree add -q --detach "$wt/repo" HEAD || exit 3
if ! git -C "$wt/repo" apply "$patch"; then echo "PATCH DOES NOT APPLY"; git -C /repo worktree remove --force "$wt/repo"; rm -rf "$wt"; exit 3; fi
VERIF_REPO="$wt/repo" VERIF_EVIDENCE_DIR="$wt/ev" VERIF_REPLAY_DIR="$wt/rp" /verif/check "$id" --tier "$tier" 2>&1 | tail -${MUTEST_TAIL:-8}
rc=${PIPESTATUS[0]}
git -C /repo worktree remove --force "$wt/repo"; rm -rf "$wt"
echo "mutest rc=$rc"
exit $rc
