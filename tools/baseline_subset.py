#!/venv/bin/python
"""Run a subset of the repository's pinned test-suite and compare with /root/.vp/BASELINE.json.

usage: baseline_subset.py [--repo DIR] <pytest path/args ...>
Exits 0 iff every test of the baseline's stable_pass list that lies in the selected files passed.
"""
import json
import os
import subprocess
import sys
import tempfile
import xml.etree.ElementTree as ET

args = sys.argv[1:]
repo = '/repo'
if args and args[0] == '--repo':
    repo = args[1]
    args = args[2:]
base = json.load(open('/root/.vp/BASELINE.json'))
stable = set(base['stable_pass'])
with tempfile.TemporaryDirectory() as td:
    xml = os.path.join(td, 'r.xml')
    env = dict(os.environ)
    if repo != '/repo':
        env['PYTHONPATH'] = repo + (':' + env['PYTHONPATH'] if env.get('PYTHONPATH') else '')
    cmd = ['/venv/bin/python', '-m', 'pytest', '-q', '-p', 'no:cacheprovider', '--timeout=900', '--continue-on-collection-errors', '-n', os.environ.get('NPYTEST', '0'), f'--junitxml={xml}'] + args
    if os.environ.get('NPYTEST', '0') == '0':
        cmd = [c for c in cmd if c not in ('-n', '0')]
    r = subprocess.run(cmd, cwd=repo, env=env, capture_output=True, text=True)
    tree = ET.parse(xml)
passed, failed = set(), set()
for tc in tree.iter('testcase'):
    name = f"{tc.get('classname')}::{tc.get('name')}"
    bad = any(ch.tag in ('failure', 'error', 'skipped') for ch in tc)
    (failed if bad else passed).add(name)
mods = {n.split('::')[0] for n in passed | failed}
expected = {n for n in stable if n.split('::')[0] in mods}
missing = sorted(expected - passed)
print(f'ran {len(passed | failed)} tests in {len(mods)} modules: {len(passed)} passed; baseline expects {len(expected)} of them to pass; regressions: {len(missing)}')
for m in missing[:40]:
    print('  REGRESSION', m)
sys.exit(1 if missing else 0)
