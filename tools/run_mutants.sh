#!/bin/bash
# usage: tools/run_mutants.sh <ID> [tier]  — runs every patch in mutants/<ID>/ through mutest.sh; prints a table
id=$1; tier=${2:-quick}
cd /verif
for m in mutants/$id/*.diff; do
  out=$(MUTEST_TAIL=3 ./mutest.sh $m $id $tier 2>&1)
  rc=$(echo "$out" | grep -o 'mutest rc=[0-9]*' | tail -1)
  kinds=$(echo "$out" | grep -o '"kind":"[^"]*"' | sort | uniq -c | sort -rn | head -3 | tr '\n' ' ')
  echo "$id $(basename $m .diff): $rc $kinds"
done
