#!/bin/bash
# Runs the repository's complete pinned test-suite on /repo (guard off: nothing in /repo reads PYSDC_VERIF) and compares
# with BASELINE.json. Files are kept together on one worker (some test files share data files).
cd /repo
export OMP_NUM_THREADS=1 OPENBLAS_NUM_THREADS=1
/venv/bin/python -m pytest -q -p no:cacheprovider --timeout=900 --continue-on-collection-errors -n ${NPYTEST:-8} --dist loadfile --junitxml=/tmp/full_baseline.xml > /tmp/full_baseline.out 2>&1
/venv/bin/python - <<'PY'
import json, xml.etree.ElementTree as ET
base = json.load(open('/root/.vp/BASELINE.json'))
stable = set(base['stable_pass'])
passed = set()
for tc in ET.parse('/tmp/full_baseline.xml').iter('testcase'):
    name = f"{tc.get('classname')}::{tc.get('name')}"
    if not any(ch.tag in ('failure', 'error', 'skipped') for ch in tc):
        passed.add(name)
missing = sorted(stable - passed)
print(f'full suite: {len(passed)} passed; baseline stable_pass {len(stable)}; missing from passed: {len(missing)}')
for m in missing[:60]:
    print('  REGRESSION', m)
PY
