#!/bin/bash
# usage: tools/quick_all.sh [seed] [evidence-dir]  — every quick check once, one line per check (exit code, wall time)
seed=${1:-0}; ev=${2:-}
cd /verif
for n in $(seq -w 1 20); do
  id=C$n
  s=$(date +%s)
  if [ -n "$ev" ]; then
    VERIF_SEED=$seed VERIF_EVIDENCE_DIR=$ev ./check $id --tier quick > /tmp/quick_${id}_s$seed.log 2>&1
  else
    VERIF_SEED=$seed ./check $id --tier quick > /tmp/quick_${id}_s$seed.log 2>&1
  fi
  rc=$?
  echo "$id seed=$seed rc=$rc wall=$(( $(date +%s)-s ))s violations=$(grep -c '^VIOLATION' /tmp/quick_${id}_s$seed.log) $(tail -1 /tmp/quick_${id}_s$seed.log | cut -c1-120)"
done
