#!/bin/bash
# usage: tools/run_all.sh <tier> ID...   — runs the checks one after the other, prints exit code and wall time
tier=$1; shift
cd /verif
for id in "$@"; do
  s=$(date +%s)
  ./check $id --tier $tier > /tmp/run_$id.$tier.log 2>&1
  rc=$?
  e=$(date +%s)
  echo "$id $tier rc=$rc wall=$((e-s))s $(tail -1 /tmp/run_$id.$tier.log | cut -c1-200)"
done
