#!/bin/bash
# The pinned baseline command, unchanged (serial), on /repo; compares with BASELINE.json stable_pass.
cd /repo && /venv/bin/python -m pytest -ra -q -p no:cacheprovider --timeout=900 --continue-on-collection-errors --junitxml=/tmp/full_serial.xml > /tmp/full_serial.out 2>&1
/venv/bin/python - <<'PY'
import json, xml.etree.ElementTree as ET
base = json.load(open('/root/.vp/BASELINE.json'))
stable = set(base['stable_pass'])
passed = set()
for tc in ET.parse('/tmp/full_serial.xml').iter('testcase'):
    name = f"{tc.get('classname')}::{tc.get('name')}"
    if not any(ch.tag in ('failure', 'error', 'skipped') for ch in tc):
        passed.add(name)
missing = sorted(stable - passed)
print(f'full suite (serial, pinned command): {len(passed)} passed; baseline stable_pass {len(stable)}; missing from passed: {len(missing)}')
for m in missing[:60]:
    print('  REGRESSION', m)
PY
