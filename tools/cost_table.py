#!/venv/bin/python
"""Print the cost table of DESIGN.md section 3 from the evidence files the checks wrote.

usage: tools/cost_table.py [quick-evidence-dir] [thorough-evidence-dir]
"""
import glob
import json
import os
import sys

ROOT = os.path.dirname(os.path.dirname(os.path.abspath(__file__)))
qdir = sys.argv[1] if len(sys.argv) > 1 else os.path.join(ROOT, 'evidence')
tdir = sys.argv[2] if len(sys.argv) > 2 else os.path.join(ROOT, 'evidence', 'thorough')


def size(e):
    c = e['coverage']
    parts = []
    for k in ('executions', 'evaluations', 'states', 'transitions', 'configurations'):
        if k in c and isinstance(c[k], (int, float)) and not isinstance(c[k], bool):
            parts.append(f'{c[k]:,} {k}'.replace(',', ' '))
    if 'depth' in c:
        parts.append(f"depth {c['depth']}")
    if c.get('max_deviations_seen') is not None:
        parts.append(f"<= {c['max_deviations_seen']} deviations seen")
    return ', '.join(parts[:4])


def load(d):
    out = {}
    for f in sorted(glob.glob(os.path.join(d, 'C*.json'))):
        e = json.load(open(f))
        out[e['property_id']] = e
    return out


q, t = load(qdir), load(tdir)
print('| check | quick: explored | quick wall | thorough: explored | thorough wall |')
print('|---|---|---|---|---|')
for pid in sorted(set(q) | set(t)):
    row = [pid]
    for src, tier in ((q, 'quick'), (t, 'thorough')):
        e = src.get(pid)
        if e is None or e.get('tier') != tier:
            row += ['(not recorded)', '']
        else:
            row += [size(e), f"{e['wall_s']:.0f} s"]
    print('| ' + ' | '.join(row) + ' |')
