#!/venv/bin/python
"""Rewrite the table of DESIGN.md section 3 (design_parts/90_tail.md) from the evidence files (quick: evidence/,
thorough: evidence/thorough/)."""
import os
import re
import subprocess

ROOT = os.path.dirname(os.path.dirname(os.path.abspath(__file__)))
p = os.path.join(ROOT, 'design_parts', '90_tail.md')
s = open(p).read()
table = subprocess.run([os.path.join(ROOT, 'tools', 'cost_table.py')], capture_output=True, text=True, check=True).stdout
a = s.index('## 3. Cost summary')
b = s.index('---------------------------------------------------------------------------------', a)
head = (
    '## 3. Cost summary\n\n'
    'Sizes and wall times are what the checks themselves wrote into `evidence/<ID>.json` (quick tier) and\n'
    '`evidence/thorough/<ID>.json` (thorough tier) in the final runs on the 16-core sandbox; the thorough runs shared the\n'
    'machine with other jobs (mutant sweep, quick runs with other seeds; C07 and the seven cheapest were measured again on\n'
    'the idle machine: C07 took 4 517 s under load and 1 869 s alone), the quick runs did not. Regenerate with\n'
    '`tools/update_cost_section.py`.\n\n'
)
s = s[:a] + head + table + '\n' + s[b:]
open(p, 'w').write(s)
print('section 3 rewritten')
